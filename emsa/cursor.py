"""Cursor discipline analysis (SCN-*): abstract interpretation of every function
that handles a scanner object.

Facts per cursor variable  (d, fr, br):
  d   displacement since function entry: Z (=0) P (>0) N (<0) NN (>=0) NP (<=0) U
  fr  proven lower bound of  end - pos   (1, 0, -1) or None (nothing known)
  br  proven lower bound of  pos - start (1, 0, -1) or None
Snapshots (`start = scanner.pos`) keep the facts of the moment; restoring the
cursor from a snapshot restores them.  Function summaries are computed per
entry context (fr, br) and memoised; recursion is solved by fixpoint.
"""
import ast

from .core import AnalysisError, src_of, Class, Func
from .absint import Interp, Client, State
from .minieval import MiniEval, Rec

FWD, BWD = 'fwd', 'bwd'

CURSOR_CLASSES = {
    'emmet.scanner.Scanner': ('', FWD),
    'emmet.token_scanner.TokenScanner': (None, FWD),
    'emmet.markup.format.template.TokenScanner': ('', FWD),
    'emmet.extract_abbreviation.reader.BackwardScanner': ('', BWD),
    'emmet.math_expression.extract.BackwardScanner': ('', BWD),
}
CURSOR_PARAM_NAMES = ('scanner', 'stream')

REVIEWED_SUMMARIES = {
    # function : reason why "result is None  <=>  nothing was consumed" (a field-to-cursor correlation the analysis does not derive)
    'emmet.abbreviation.parser.element':
        'is_empty(elem) is false only after element_name / an attribute / a text consumed a token, and every such consumer stores into elem',
}

# return-value kinds
T, NONE, FNN, UNK = 'T', 'NONE', 'FNN', 'UNK'     # truthy / None / falsy-but-not-None / unknown


def dmove(d, k):
    """displacement after moving by k (k>0 forward, k<0 backward)"""
    if k > 0:
        return {'Z': 'P', 'P': 'P', 'NN': 'P', 'N': 'U', 'NP': 'U', 'U': 'U'}[d]
    if k < 0:
        return {'Z': 'N', 'N': 'N', 'NP': 'N', 'P': 'NN' if k == -1 else 'U', 'NN': 'U', 'U': 'U'}[d]
    return d


def dcompose(a, b):
    """displacement a (caller, since its entry) followed by callee displacement b"""
    if b == 'Z':
        return a
    if a == 'Z':
        return b
    if b == 'U' or a == 'U':
        return 'U'
    pos = {'P', 'NN'}
    neg = {'N', 'NP'}
    if a in pos and b in pos:
        return 'P' if 'P' in (a, b) else 'NN'
    if a in neg and b in neg:
        return 'N' if 'N' in (a, b) else 'NP'
    return 'U'


def rdec(r, k=1):
    if r is None:
        return None
    v = r - k
    return v if v >= -1 else None


def rinc(r, k=1):
    if r is None:
        return None
    return min(1, r + k)


def rmax(r, v):
    return v if r is None else max(r, v)


class Outcome:
    __slots__ = ('kind', 'd', 'fr', 'br', 'snapret', 'trace')

    def __init__(self, kind, d, fr, br, snapret=False, trace=''):
        self.kind, self.d, self.fr, self.br, self.snapret, self.trace = kind, d, fr, br, snapret, trace

    def key(self):
        return (self.kind, self.d, self.fr, self.br, self.snapret)

    def __hash__(self):
        return hash(self.key())

    def __eq__(self, o):
        return self.key() == o.key()

    def __repr__(self):
        return 'Out(%s d=%s fr=%s br=%s%s)' % (self.kind, self.d, self.fr, self.br, ' snap' if self.snapret else '')


class Report:
    """collects obligations/violations discovered while interpreting"""
    def __init__(self):
        self.items = {}      # (rule, func qualname, construct) -> dict
        self.checked = {}    # rule -> set of (func, construct) discharged

    def bad(self, rule, func, node, construct, message, state=None, **kw):
        key = (rule, func.qualname, construct)
        if key not in self.items:
            self.items[key] = dict(rule=rule, func=func, node=node, construct=construct, message=message,
                                   trace=state.show_trace() if state is not None else '', **kw)

    def ok(self, rule, func, construct):
        self.checked.setdefault(rule, set()).add((func.qualname, construct))


class CursorAnalysis:
    def __init__(self, project):
        self.p = project
        self.memo = {}        # (qualname, ctx) -> set(Outcome)
        self.busy = set()
        self.changed = False
        self.report = Report()
        self.ev = MiniEval(project)
        self._empty_cache = {}
        self.analysed = set()
        self.loops = {}       # (qualname, lineno) -> info
        self.esc_sites = set()  # (qualname, lineno) of eat(<escape character>) calls seen
        self.vague_preds = set()   # predicates whose value on the empty sentinel could not be tabulated (assumed to accept it)

    def token_classes(self):
        if not hasattr(self, '_tcs'):
            out = set()
            for mq in ('emmet.abbreviation.tokenizer.tokens.Token', 'emmet.css_abbreviation.tokenizer.tokens.Token'):
                base = self.p.classes.get(mq)
                if base is not None:
                    out |= {c.qualname for c in self.p.subclasses(base)}
            self._tcs = out
        return self._tcs

    # ------------------------------------------------------------- helpers
    def cursor_class_of(self, f, name):
        """-> (class qualname) for variable `name` in f, or None"""
        t = self.p.type_of(f, ast.Name(id=name, ctx=ast.Load()))
        if isinstance(t, Class) and t.qualname in CURSOR_CLASSES:
            return t.qualname
        if name in f.all_params() and name in CURSOR_PARAM_NAMES and t is None:
            return 'emmet.scanner.Scanner'
        return None

    def cursor_params(self, f):
        return [(i, n, self.cursor_class_of(f, n)) for i, n in enumerate(f.params) if self.cursor_class_of(f, n)]

    def accepts_empty(self, scope, pred_expr, sentinel):
        """May predicate/char `pred_expr` (argument of eat/consume) match the empty sentinel?"""
        v = self.p.try_const(scope, pred_expr)
        if isinstance(v, str):
            return v == ''
        e = self.p.resolve_expr(scope, pred_expr) if isinstance(pred_expr, (ast.Name, ast.Attribute)) else None
        if e is not None and e.kind == 'func':
            r = self.truthy_on_empty(e.obj, sentinel)
            if e.obj.qualname in self.vague_preds:
                self.last_vague = e.obj.short
            return r
        if isinstance(pred_expr, ast.IfExp):
            return self.accepts_empty(scope, pred_expr.body, sentinel) or self.accepts_empty(scope, pred_expr.orelse, sentinel)
        return True     # unknown variable: may be anything

    def truthy_on_empty(self, func, sentinel, extra_args=()):
        """SCN-EMPTY: abstract evaluation of a predicate on the one-point domain {sentinel}."""
        key = (func.qualname, sentinel, len(extra_args))
        if key not in self._empty_cache:
            try:
                args = [sentinel] + list(extra_args)
                while len(args) < len([p for p in func.params if p not in func.defaults]):
                    args.append(None)
                r = bool(self.ev.call(func, args))
            except AnalysisError:
                r = True     # cannot evaluate: assume it may accept the sentinel
                self.vague_preds.add(func.qualname)
            self._empty_cache[key] = r
        return self._empty_cache[key]

    # ----------------------------------------------------------- summaries
    def summary(self, f, cname, ctx):
        key = (f.qualname, cname, ctx)
        if key in self.busy:
            return set(self.memo.get(key, set()))
        if key in self.memo and key not in self._dirty:
            return set(self.memo[key])
        self.busy.add(key)
        try:
            client = CursorClient(self, f)
            it = Interp(self.p, f, client)
            fr, br = ctx[0], ctx[1]
            init = State({('cur', cname): ('Z', fr, br)})
            if fr is None and client.direction(cname) == FWD:
                init = init.set(('vague', cname), 'called with a cursor whose room the caller does not know')
            for pn in (ctx[2] if len(ctx) > 2 else ()):
                init = init.set(('nonempty', pn), True)
            fl = it.run([init])
            outs = set()
            for s, v, st in fl.ret:
                cf = s.get(('cur', cname))
                if cf is None:
                    cf = ('U', None, None)
                if s.get(('vague', cname)) and cf[1] is not None and cf[1] < 0:
                    cf = (cf[0], None, cf[2])        # "may be beyond" only because something could not be analysed: unknown, not negative
                kind = s.get(('retkind',), UNK)
                snapret = bool(s.get(('retsnap',), False))
                outs.add(Outcome(kind, cf[0], cf[1], cf[2], snapret, s.show_trace()))
            if f.qualname in REVIEWED_SUMMARIES:
                ref = set()
                for o in outs:
                    if o.kind == UNK and o.d == 'Z':
                        ref.add(Outcome(NONE, o.d, o.fr, o.br, o.snapret, o.trace))
                    elif o.kind == UNK and o.d == 'P':
                        ref.add(Outcome(T, o.d, o.fr, o.br, o.snapret, o.trace))
                    else:
                        ref.add(o)
                outs = ref
            old = self.memo.get(key, set())
            if outs != old:
                self.memo[key] = outs | old
                self.changed = True
            self._dirty.discard(key)
            self.analysed.add(f.qualname)
            return set(self.memo[key])
        finally:
            self.busy.discard(key)

    def analyse_all(self, funcs):
        """Analyse every function (as an entry, cursor parameters in-range) to fixpoint."""
        self._dirty = set()
        for rnd in range(8):
            self.changed = False
            self._dirty = set(self.memo)
            self.report = Report()
            self.loops = {}
            for f in funcs:
                cps = self.cursor_params(f)
                if cps:
                    for _, cname, _ in cps[:1]:
                        self.summary(f, cname, (0, 0, ()))
                else:
                    # functions that create their own cursor
                    key = (f.qualname, None, (None, None))
                    if key in self.busy:
                        continue
                    self.busy.add(key)
                    try:
                        client = CursorClient(self, f)
                        Interp(self.p, f, client).run([State({})])
                        self.analysed.add(f.qualname)
                    finally:
                        self.busy.discard(key)
            if not self.changed:
                return rnd + 1
        raise AnalysisError('cursor summaries do not reach a fixpoint')


def _const_move(p, f, node):
    v = p.try_const(f, node)
    return v if isinstance(v, int) and not isinstance(v, bool) else None


class CursorClient(Client):
    def __init__(self, an, func):
        self.an = an
        self.p = an.p
        self.f = func
        self.cursors = {}
        for n in func.locals:
            c = an.cursor_class_of(func, n)
            if c:
                self.cursors[n] = c
        # closure cursors (nested helper such as css scan.notify reads scanner.start only)
        self.loop_bound_cache = {}

    # ---------------------------------------------------------- primitives
    def sentinel(self, cname):
        return CURSOR_CLASSES[self.cursors[cname]][0]

    def direction(self, cname):
        return CURSOR_CLASSES[self.cursors[cname]][1]

    def cur(self, s, c):
        return s.get(('cur', c), ('U', None, None))

    def setcur(self, s, c, facts):
        return s.set(('cur', c), facts)

    def examined(self, s, c):
        """the character at the cursor was looked at (peek / eat / consume / a callee that received the cursor)"""
        return s.drop_if(lambda k, v: k[0] == 'fresh' and k[2] == c)

    def blind_step(self, s, c, node, construct):
        """a step that does not look at the character it passes; as the first cursor action of a loop iteration it means that the
        position the iteration started at is never examined"""
        fresh = [k for k in s.facts if k[0] == 'fresh' and k[2] == c]
        if fresh:
            self.an.report.bad('SCN-BLIND', self.f, node, construct,
                               'the first thing an iteration of the scanning loop (line %d) does is to step over a character without looking at it: '
                               'whatever the loop searches for is never recognised at the position the loop was entered with' % fresh[0][1], s)
        elif any(k[0] == 'lp' and k[2] == c for k in s.facts):
            self.an.report.ok('SCN-BLIND', self.f, construct)
        return self.examined(s, c)

    def kill_peeks(self, s, c):
        return s.drop_if(lambda k, v: (k[0] in ('peek', 'peekfn') and v[0] == c) or (k[0] == 'peeksat' and k[1] == c))

    def implies(self, p1, p2):
        """predicate p1(ch) implies p2(ch): p2 is `p1(ch) or ...` (or p1 itself)"""
        if p1 == p2:
            return True
        g = self.p.funcs.get(p2)
        if g is None or not g.params:
            return False
        rets = [n for n in g.body_nodes() if isinstance(n, ast.Return)]
        if len(rets) != 1 or not isinstance(rets[0].value, ast.BoolOp) or not isinstance(rets[0].value.op, ast.Or):
            return False
        for v in rets[0].value.values:
            if isinstance(v, ast.Call) and len(v.args) == 1 and src_of(v.args[0]) == g.params[0]:
                t = self.p.resolve_call(g, v)
                if isinstance(t, list) and len(t) == 1 and self.implies(p1, t[0].qualname):
                    return True
        return False

    def move(self, s, c, k, node=None):
        d, fr, br = self.cur(s, c)
        nd = dmove(d, k)
        if k > 0:
            nfr, nbr = rdec(fr, k), rinc(br, k)
        else:
            nfr, nbr = rinc(fr, -k), rdec(br, -k)
        s = self.setcur(s, c, (nd, nfr, nbr))
        s = self.kill_peeks(s, c)
        s = s.drop(('esc', c))
        # loop progress markers
        for key, v in list(s.facts.items()):
            if key[0] == 'lp' and key[2] == c:
                s = s.set(key, dmove(v, k))
        return s

    def unknown_move(self, s, c):
        s = self.setcur(s, c, ('U', None, None)).set(('vague', c), 'the cursor is moved by code the cursor domain does not see')
        s = self.kill_peeks(s, c)
        s = s.drop(('esc', c))
        for key, v in list(s.facts.items()):
            if key[0] == 'lp' and key[2] == c:
                s = s.set(key, 'U')
        return s

    def apply_outcome(self, s, c, o):
        """caller facts after a callee outcome"""
        s = self.examined(s, c)
        d, fr, br = self.cur(s, c)
        if o.d == 'Z':
            return s          # position unchanged: every fact survives
        nd = dcompose(d, o.d)
        s = self.setcur(s, c, (nd, o.fr, o.br))
        if o.d == 'U' or (o.fr is None and fr is not None):
            s = s.set(('vague', c), 'a callee leaves the cursor in a state the cursor domain does not know')
        s = self.kill_peeks(s, c)
        for key, v in list(s.facts.items()):
            if key[0] == 'lp' and key[2] == c:
                s = s.set(key, dcompose(v, o.d))
        return s

    def refine_room(self, s, c, dirn=None):
        """a non-empty element is available in the direction of travel"""
        d, fr, br = self.cur(s, c)
        dirn = dirn or self.direction(c)
        if dirn == FWD:
            return self.setcur(s, c, (d, rmax(fr, 1), br))
        return self.setcur(s, c, (d, fr, rmax(br, 1)))

    def cursor_of(self, expr):
        if isinstance(expr, ast.Name) and expr.id in self.cursors:
            return expr.id
        return None

    def is_pos(self, expr):
        """expr is `<cursor>.pos` -> cursor name"""
        if isinstance(expr, ast.Attribute) and expr.attr == 'pos':
            return self.cursor_of(expr.value)
        return None

    # --------------------------------------------------------------- reads
    def check_reads(self, s, expr, stmt, skip=()):
        """SCN-OVER: loads of cursor.pos / snapshot variables into values"""
        for n in ast.walk(expr):
            if any(n is x for x in skip):
                continue
            c = self.is_pos(n)
            if c is not None and isinstance(n.ctx, ast.Load):
                d, fr, br = self.cur(s, c)
                self._check_room(s, c, fr, br, n, stmt, 'cursor position %s.pos' % c)
            elif isinstance(n, ast.Name) and isinstance(n.ctx, ast.Load) and s.get(('snap', n.id)) is not None:
                c, d, fr, br = s.get(('snap', n.id))
                self._check_room(s, c, fr, br, n, stmt, 'saved position `%s`' % n.id)

    def _check_room(self, s, c, fr, br, node, stmt, what):
        dirn = self.direction(c)
        construct = src_of(stmt) if stmt is not None else src_of(node)
        construct = construct.split('\n')[0]
        bad = None
        if fr is None or fr < 0:
            if dirn == FWD or fr is not None:
                bad = 'may lie beyond the end of the input'
        if bad is None and (br is not None and br < 0):
            bad = 'may lie before the start of the input'
        if bad:
            self.an.report.bad('SCN-OVER', self.f, node, construct, '%s %s when it is read into a value here' % (what, bad), s,
                               undecided=s.get(('vague', c)))
        else:
            self.an.report.ok('SCN-OVER', self.f, construct)

    # ------------------------------------------------------------- assign
    def assign(self, it, s, target, value, stmt):
        an = self.an
        # cursor.pos = ...
        c = self.is_pos(target)
        if c is not None:
            if isinstance(value, ast.Name) and s.get(('snap', value.id)) is not None and s.get(('snap', value.id))[0] == c:
                _, d, fr, br = s.get(('snap', value.id))
                old = self.cur(s, c)
                s = self.setcur(s, c, (d, fr, br))
                s = self.kill_peeks(s, c)
                s = self._lp_restore(s, c, old[0], d, value.id)
                return [s]
            if isinstance(value, ast.Call) and isinstance(value.func, ast.Attribute) and value.func.attr == 'pop' \
                    and isinstance(value.func.value, ast.Name) and s.get(('lsnap', value.func.value.id)) is not None:
                _, d, fr, br = s.get(('lsnap', value.func.value.id))
                s = self.setcur(s, c, (d, fr, br))
                s = self.kill_peeks(s, c)
                s = self._lp_unknown(s, c)
                return [s]
            if isinstance(value, ast.Name) and s.get(('intfact', value.id)) is not None:
                fr, br = s.get(('intfact', value.id))
                s = self.setcur(s, c, ('U', fr, br))
                s = self.kill_peeks(s, c)
                return [self._lp_unknown(s, c)]
            s = self.unknown_move(s, c)
            if self.cursors[c] == 'emmet.extract_abbreviation.reader.BackwardScanner':
                # documented assumption: a backward scanner is positioned at or after its left bound
                s = self.setcur(s, c, ('U', None, 0))
            return [s]
        if isinstance(target, ast.Attribute) and self.cursor_of(target.value) is not None:
            # other cursor fields (start, end ...): value reads checked
            if not isinstance(value, tuple):
                self.check_reads(s, value, stmt)
            if target.attr == 'start':
                cc = self.cursor_of(target.value)
                d0 = None
                if isinstance(value, ast.Name) and s.get(('snap', value.id)) is not None:
                    d0 = s.get(('snap', value.id))[1]
                elif not isinstance(value, tuple) and self.is_pos(value) == cc:
                    d0 = self.cur(s, cc)[0]
                s = s.set(('startsnap', cc), d0) if d0 is not None else s.drop(('startsnap', cc))
            if target.attr in ('end', 'size', 'text', 'string', 'tokens'):
                cc = self.cursor_of(target.value)
                d, fr, br = self.cur(s, cc)
                s = self.setcur(s, cc, (d, None, br))
            return [s]
        if isinstance(target, ast.Name):
            name = target.id
            s = s.drop(('snap', name)).drop(('peek', name)).drop(('peekfn', name)).drop(('bool', name)).drop(('val', name)) \
                 .drop(('intfact', name)).drop(('lsnap', name)).drop(('cond', 'len', name)).drop(('nonempty', name)).drop(('elem', name)).drop(('cnt', name)).drop(('ge1', name)).drop(('nechar', name))
            if name in self.cursors and not isinstance(value, tuple):
                # creation / re-binding of a cursor
                return [self._bind_cursor(s, name, value, stmt)]
            if isinstance(value, tuple) and name in self.cursors:
                return [self._bind_cursor(s.drop(('lastkind',)), name, value[2], stmt)] if value[1] else []
            if isinstance(value, tuple):          # ('bool', truth, expr)
                _, truth, expr = value
                kind = s.get(('lastkind',), None)
                s = s.drop(('lastkind',))
                rs = s.get(('retsnapval',))
                if rs is not None and isinstance(expr, ast.Call):
                    # the callee returns the position it found the cursor at (and may have stepped): a saved position
                    return [s.drop(('retsnapval',)).set(('snap', name), rs)]
                if not any(isinstance(n, ast.Name) and n.id in self.cursors for n in ast.walk(expr)):
                    return [s]        # value unrelated to any cursor: no carrier facts (keeps the state set small)
                s = s.set(('bool', name), truth)
                if kind is not None:
                    s = s.set(('val', name), kind)
                elif truth:
                    s = s.set(('val', name), T)
                # direct peek: v = cursor.peek() / prev() / cur()
                pk = self._peek_expr(s, expr)
                if pk is not None:
                    s = s.set(('peek', name), pk)
                # derived peek: v = f(cursor.peek()) / f(peekvar)
                pf = self._peek_fn(s, expr)
                if pf is not None:
                    s = s.set(('peekfn', name), pf)
                return [s]
            # snapshot
            c = self.is_pos(value) if value is not None else None
            if c is not None:
                d, fr, br = self.cur(s, c)
                s = s.set(('snap', name), (c, d, fr, br))
                for key, v in list(s.facts.items()):
                    if key[0] == 'lp' and key[2] == c:
                        s = s.set(('lpsnap', key[1], name), v)
                return [s]
            if value is not None:
                self.check_reads(s, value, stmt)
                pk = self._peek_expr(s, value)
                if pk is not None:
                    s = s.set(('peek', name), pk)
                if isinstance(value, ast.Name) and s.get(('snap', value.id)) is not None:
                    s = s.set(('snap', name), s.get(('snap', value.id)))
                iv = self._int_fact(s, value)
                if iv is not None:
                    s = s.set(('intfact', name), iv)
                if isinstance(value, ast.Constant) and isinstance(value.value, int) and not isinstance(value.value, bool) and value.value >= 0:
                    s = s.set(('cnt', name), min(value.value, 2))
                if isinstance(value, ast.Constant) and value.value is None:
                    s = s.set(('val', name), NONE)
                elif isinstance(value, ast.Constant) and not value.value:
                    s = s.set(('val', name), FNN)
                elif isinstance(value, (ast.List, ast.Dict, ast.Tuple)) and not (getattr(value, 'elts', None) or getattr(value, 'keys', None)):
                    s = s.set(('val', name), FNN)
            return [s]
        if value is not None and not isinstance(value, tuple):
            self.check_reads(s, value, stmt)
        if isinstance(target, (ast.Tuple, ast.List)):
            for t in target.elts:
                if isinstance(t, ast.Name):
                    s = s.drop(('snap', t.id)).drop(('peek', t.id)).drop(('bool', t.id)).drop(('val', t.id))
        return [s]

    def _lp_restore(self, s, c, old_d, new_d, snapname):
        """loop progress after restoring to a snapshot: if the snapshot was taken inside the current
        iteration its marker value was recorded with it"""
        for key, v in list(s.facts.items()):
            if key[0] == 'lp' and key[2] == c:
                rec = s.get(('lpsnap', key[1], snapname))
                s = s.set(key, rec if rec is not None else 'U')
        return s

    def _lp_unknown(self, s, c):
        for key, v in list(s.facts.items()):
            if key[0] == 'lp' and key[2] == c:
                s = s.set(key, 'U')
        return s

    def _bind_cursor(self, s, name, value, stmt):
        cls = self.cursors[name]
        fr = br = None
        if isinstance(value, ast.Call):
            nargs = len(value.args)
            if cls == 'emmet.scanner.Scanner' and nargs == 1 and not value.keywords:
                fr, br = 0, 0                # pos = 0, end = len(source)
            elif cls == 'emmet.scanner.Scanner':
                fr, br = None, 0             # explicit start/end: nothing known about end - start
            elif cls in ('emmet.token_scanner.TokenScanner', 'emmet.markup.format.template.TokenScanner'):
                fr, br = 0, 0
            elif cls == 'emmet.extract_abbreviation.reader.BackwardScanner':
                fr, br = 0, None             # pos = len(text); start is a caller value
                if nargs == 1:
                    br = 0
            elif cls == 'emmet.math_expression.extract.BackwardScanner':
                # BackwardScanner(text, pos): facts of `pos`
                fr, br = None, None
                if nargs >= 2 and isinstance(value.args[1], ast.Name) and s.get(('intfact', value.args[1].id)) is not None:
                    fr, br = s.get(('intfact', value.args[1].id))
        elif isinstance(value, ast.IfExp):
            # scanner = Scanner(expr) if isinstance(expr, str) else expr
            fr, br = 0, 0
        return self.setcur(s, name, ('Z', fr, br))

    def _int_fact(self, s, value):
        """(fr, br) for an integer expression known to lie in 0..len(text): clamps and len()"""
        src = src_of(value)
        if isinstance(value, ast.Call) and isinstance(value.func, ast.Name) and value.func.id == 'len' and len(value.args) == 1:
            return (0, 0)
        if isinstance(value, ast.Call) and isinstance(value.func, ast.Name) and value.func.id in ('min', 'max') and len(value.args) == 2:
            inner = [a for a in value.args if isinstance(a, ast.Call) and isinstance(a.func, ast.Name) and a.func.id in ('min', 'max')]
            if inner and 'len(' in src and ('max(0' in src or ', 0)' in src):
                return (0, 0)
        return None

    def _peek_expr(self, s, value):
        """value is cursor.peek()/prev()/cur()/previous-less look -> (cursor, dirn)"""
        if isinstance(value, ast.Call) and isinstance(value.func, ast.Attribute) and not value.args:
            c = self.cursor_of(value.func.value)
            if c is not None:
                m = value.func.attr
                cls = self.cursors[c]
                if m == 'peek':
                    return (c, self.direction(c))
                if m == 'prev':
                    return (c, BWD)
                if m == 'cur':
                    return (c, FWD)
        return None

    def _peek_of_arg(self, s, expr):
        if isinstance(expr, ast.Call) and len(expr.args) == 1:
            a = expr.args[0]
            pk = self._peek_expr(s, a)
            if pk is None and isinstance(a, ast.Name):
                pk = s.get(('peek', a.id))
            return pk
        return None

    def _peek_fn(self, s, expr):
        """expr is f(<peek>) with f falsy on the empty sentinel -> (cursor, dirn)"""
        if isinstance(expr, ast.Call) and len(expr.args) >= 1:
            a = expr.args[0]
            pk = self._peek_expr(s, a)
            if pk is None and isinstance(a, ast.Name):
                pk = s.get(('peek', a.id))
            if pk is None:
                return None
            tgt = self.p.resolve_call(self.f, expr)
            if isinstance(tgt, list) and len(tgt) == 1:
                if not self.an.truthy_on_empty(tgt[0], CURSOR_CLASSES[self.cursors[pk[0]]][0]):
                    return pk
            if isinstance(expr.func, ast.Attribute) and expr.func.attr == 'get' and len(expr.args) == 1:
                # TABLE.get(ch): truthy => ch is a key; keys are non-empty
                tbl = self.p.try_const(self.f, expr.func.value)
                if isinstance(tbl, dict) and '' not in tbl and None not in tbl:
                    return pk
        return None

    def augassign(self, it, s, stmt):
        c = self.is_pos(stmt.target)
        if c is not None:
            k = _const_move(self.p, self.f, stmt.value)
            if k is None and isinstance(stmt.value, ast.IfExp) and isinstance(stmt.op, (ast.Add, ast.Sub)):
                # pos += a if cond else b: one state per alternative (the condition is evaluated for its cursor facts)
                ka, kb = _const_move(self.p, self.f, stmt.value.body), _const_move(self.p, self.f, stmt.value.orelse)
                if ka is not None and kb is not None:
                    out = []
                    ts, fs = it.cond(stmt.value.test, s)
                    for alt, states in ((stmt.value.body, ts), (stmt.value.orelse, fs)):
                        for st_ in states:
                            fake = ast.copy_location(ast.AugAssign(target=stmt.target, op=stmt.op, value=alt), stmt)
                            out += self.augassign(it, st_, fake)
                    return out
            if k is None or not isinstance(stmt.op, (ast.Add, ast.Sub)):
                return [self.unknown_move(s, c)]
            k = k if isinstance(stmt.op, ast.Add) else -k
            d, fr, br = self.cur(s, c)
            construct = src_of(stmt)
            # SCN-ROOM census (a step without room is legal as long as the position is not read afterwards)
            self.an.report.ok('SCN-STEP', self.f, construct)
            ate = s.get(('ate', c))
            in_loop = any(key[0] == 'lp' and key[2] == c for key in s.facts)
            forward_step = (k > 0) == (self.direction(c) == FWD)
            if ate is not None and in_loop and forward_step:
                self.an.report.bad('SCN-SKIP', self.f, stmt, construct,
                                   'in the same loop iteration the cursor already consumed `%s` and now additionally skips one unexamined character: '
                                   'that character is never tested against the other alternatives of the loop (e.g. the `*` of a closing `**/`)' % ate, s)
            elif in_loop:
                self.an.report.ok('SCN-SKIP', self.f, construct)
            if forward_step:
                s = self.blind_step(s, c, stmt, construct)
            return [self.move(s, c, k, stmt)]
        self.check_reads(s, stmt.value, stmt)
        if isinstance(stmt.target, ast.Name):
            n = stmt.target.id
            cnt = s.get(('cnt', n))
            s = s.drop(('snap', n)).drop(('peek', n)).drop(('bool', n)).drop(('val', n)).drop(('intfact', n)).drop(('cnt', n)).drop(('ge1', n))
            # small counter domain: a local that starts at a constant >= 0 and only grows by positive constants
            # (values 0, 1, "2 or more") - enough to correlate `count == 0` with "the loop never ran"
            k = self.p.try_const(self.f, stmt.value)
            if cnt is not None and isinstance(stmt.op, ast.Add) and isinstance(k, int) and not isinstance(k, bool) and k > 0:
                s = s.set(('cnt', n), min(cnt + k, 2)).set(('bool', n), True)
        return [s]

    # ---------------------------------------------------------------- calls
    def call(self, it, s, call):
        """call evaluated for value / effect: join of all outcomes"""
        t, f = self.atom(it, s, call, as_cond=False)
        return t + f

    def method_effect(self, it, s, c, call, as_cond):
        """-> (true_states, false_states) for a method call on cursor c; kinds recorded in ('lastkind',)"""
        m = call.func.attr
        cls = self.cursors[c]
        sent = self.sentinel(c)
        d, fr, br = self.cur(s, c)
        dirn = self.direction(c)
        K = lambda st, kind: st.set(('lastkind',), kind)
        if m == 'eof' or (m == 'sol' and dirn == BWD):
            room = fr if m == 'eof' else br
            tstates = [] if (room is not None and room >= 1) else [K(s, T)]
            fs = self.refine_room(s, c, FWD if m == 'eof' else BWD) if (m == 'eof' or br is not None) else s
            return tstates, [K(fs, FNN)]
        if m == 'readable':
            tstate = self.refine_room(s, c, FWD)
            fstates = [] if (fr is not None and fr >= 1) else [K(s, FNN)]
            return [K(tstate, T)], fstates
        if m in ('peek', 'prev', 'cur', 'eat', 'consume', 'eat_while', 'consume_while'):
            s = self.examined(s, c)
        if m in ('next', 'previous'):
            par = self.p.parents(self.f).get(call)
            while isinstance(par, (ast.UnaryOp, ast.BoolOp)):
                par = self.p.parents(self.f).get(par)
            if isinstance(par, ast.Expr) or (isinstance(par, (ast.While, ast.If, ast.IfExp)) and any(x is call for x in ast.walk(par.test))):
                s = self.blind_step(s, c, call, src_of(call))
            else:
                s = self.examined(s, c)
        if m in ('peek', 'prev', 'cur'):
            dd = dirn if m == 'peek' else (BWD if m == 'prev' else FWD)
            room = fr if dd == FWD else br
            ts = [K(self.refine_room(s, c, dd), T)]
            fs = [] if (room is not None and room >= 1) else [K(s, FNN if sent == '' else NONE)]
            return ts, fs
        if m in ('next', 'previous') and ((m == 'next' and dirn == FWD) or (m == 'previous' and dirn == BWD)):
            step = 1 if m == 'next' else -1
            room = fr if step > 0 else br
            if cls == 'emmet.token_scanner.TokenScanner':
                # unguarded: pos += 1 always; returns None when it was not readable
                ts = [K(self.move(self.refine_room(s, c, FWD), c, 1), T)]
                fs = [] if (room is not None and room >= 1) else [K(self.move(s, c, 1), NONE)]
                return ts, fs
            ts = [K(self.move(self.refine_room(s, c, FWD if step > 0 else BWD), c, step), T)]
            fs = [] if (room is not None and room >= 1) else [K(s.drop(('esc', c)), NONE)]     # at the bound: nothing left that could be escaped
            return ts, fs
        if m in ('eat', 'consume') and call.args:
            step = 1 if dirn == FWD else -1
            self.an.last_vague = None
            acc = self.an.accepts_empty(self.f, call.args[0], sent)
            if self.an.last_vague:
                s = s.set(('vague', c), 'predicate %s could not be tabulated on the empty sentinel' % self.an.last_vague)
            a0 = call.args[0]
            if isinstance(a0, ast.Name) and s.get(('peek', a0.id)) is not None and a0.id not in self.f.params:
                acc = True           # eat(<char peeked earlier>): may be the empty sentinel
            if isinstance(a0, ast.Name) and s.get(('elem', a0.id)):
                acc = False          # loop variable over a string / list of characters
            if isinstance(a0, ast.Name) and s.get(('nechar', a0.id)):
                acc = False          # a character that passed a predicate which rejects the empty sentinel
            if cls in ('emmet.token_scanner.TokenScanner', 'emmet.extract_abbreviation.reader.BackwardScanner'):
                acc = False          # consume() tests `token and ..` / sol() first
            pre = s if (acc or (step < 0 and br is None)) else self.refine_room(s, c, FWD if step > 0 else BWD)
            moved = self.move(pre, c, step)
            asrc = src_of(a0)
            is_esc = any(w in asrc for w in ('escape', 'Escape', 'Backslash')) or self.p.try_const(self.f, a0) in ('\\', 92)
            if not is_esc:
                moved = moved.set(('ate', c), asrc)
            else:
                moved = moved.set(('esc', c), call.lineno)       # the escape character was consumed: the next character is escaped
                self.an.esc_sites.add((self.f.qualname, call.lineno))
            ts = [K(moved, T)]
            return ts, [K(s, FNN)]
        if m in ('eat_while', 'consume_while') and call.args:
            step = 1 if dirn == FWD else -1
            # the class loop tests the bound before every step: a successful run ends in range
            if step > 0:
                ok_room = not (fr is not None and fr < 0) or True
                moved = self.setcur(s, c, (dmove(d, 1), 0, rmax(br, 1) if br is not None else None))
            else:
                moved = self.setcur(s, c, (dmove(d, -1), rmax(fr, 1) if fr is not None else None, 0 if br is not None else None))
            moved = self.kill_peeks(moved, c)
            for key, v in list(moved.facts.items()):
                if key[0] == 'lp' and key[2] == c:
                    moved = moved.set(key, dmove(v, step))
            return [K(moved, T)], [K(s, FNN)]
        if m == 'back_up':
            k = _const_move(self.p, self.f, call.args[0]) if call.args else 1
            if k is None:
                return [self.unknown_move(s, c)], []
            return [K(self.move(s, c, -k), NONE)], []
        if m in ('current', 'substring', 'slice', 'limit'):
            return [K(s, UNK)], [K(s, UNK)]
        if m == 'error':
            # position of the error object
            if len(call.args) < 2 and not any(k.arg in ('pos', 'token') for k in call.keywords):
                if cls == 'emmet.scanner.Scanner':
                    self._check_room(s, c, fr, br, call, None, 'error position %s.pos' % c)
            return [K(s, T)], []
        raise AnalysisError('cursor method %s.%s is not modelled (%s:%d)' % (c, m, self.f.module.relpath, call.lineno))

    def atom(self, it, s, expr, as_cond=True):
        p = self.p
        K = lambda st, kind: st.set(('lastkind',), kind)
        s = s.drop(('lastkind',))
        # carriers
        if isinstance(expr, ast.Name) and s.get(('cnt', expr.id)) is not None and s.get(('bool', expr.id)) is None and s.get(('val', expr.id)) is None:
            return ([K(s, T)], []) if s.get(('cnt', expr.id)) > 0 else ([], [K(s, FNN)])
        if isinstance(expr, ast.Name):
            b = s.get(('bool', expr.id))
            v = s.get(('val', expr.id))
            pf = s.get(('peekfn', expr.id)) or s.get(('peek', expr.id))
            def tref(st):
                return self.refine_room(st, pf[0], pf[1]) if pf is not None else st
            ck = s.get(('cond', 'len', expr.id))
            if b is True or v == T or ck is True:
                return [K(tref(s), v or T)], []
            if b is False or v in (NONE, FNN) or ck is False:
                return [], [K(s, v or FNN)]
            if pf is None and v is None:
                return [K(s, UNK)], [K(s, UNK)]      # not a carrier of cursor facts
            return [K(tref(s).set(('bool', expr.id), True), T)], [K(s.set(('bool', expr.id), False), UNK if v is None else v)]
        if isinstance(expr, ast.Compare):
            return self._compare(it, s, expr)
        if isinstance(expr, ast.Call) and isinstance(expr.func, ast.Name) and expr.func.id == 'len' and len(expr.args) == 1 \
                and isinstance(expr.args[0], ast.Name) and expr.args[0].id in self.f.locals:
            nm = expr.args[0].id
            v = s.get(('val', nm))
            if v == T:
                return [K(s, T)], []
            if v == FNN:
                return [], [K(s, FNN)]
            key = ('cond', 'len', nm)
            known = s.get(key)
            if known is True:
                return [K(s, T)], []
            if known is False:
                return [], [K(s, FNN)]
            return [K(s.set(key, True), T)], [K(s.set(key, False), FNN)]
        if isinstance(expr, ast.Call):
            # evaluate receiver/arguments first (side effects, reads)
            states = [s]
            fn = expr.func
            c = self.cursor_of(fn.value) if isinstance(fn, ast.Attribute) else None
            arg_exprs = list(expr.args) + [k.value for k in expr.keywords]
            if c is None and isinstance(fn, ast.Attribute):
                states = it._eval_seq([fn.value], states)
            # arguments: cursor objects themselves are not "read"
            plain = [a for a in arg_exprs if self.cursor_of(a) is None]
            states = it._eval_seq(plain, states)
            Ts, Fs = [], []
            for st in states:
                for a in plain:
                    self.check_reads(st, a, p.enclosing_stmt(self.f, expr))
                st = st.drop(('lastkind',))
                if c is None and isinstance(fn, ast.Attribute) and isinstance(fn.value, ast.Name) and fn.value.id not in self.cursors:
                    lname = fn.value.id
                    if fn.attr in ('append', 'extend', 'insert', 'add'):
                        st = st.set(('val', lname), T).drop(('bool', lname))
                        st = st.drop_if(lambda k, v: k[0] == 'cond' and lname in k[2])
                        if fn.attr == 'append' and len(expr.args) == 1 and self.is_pos(expr.args[0]) is not None:
                            cc = self.is_pos(expr.args[0])
                            d_, fr_, br_ = self.cur(st, cc)
                            old = st.get(('lsnap', lname))
                            if old is not None:
                                d_ = d_ if old[1] == d_ else 'U'
                                fr_ = None if (fr_ is None or old[2] is None) else min(fr_, old[2])
                                br_ = None if (br_ is None or old[3] is None) else min(br_, old[3])
                            st = st.set(('lsnap', lname), (cc, d_, fr_, br_))
                    elif fn.attr in ('pop', 'remove', 'clear', 'reverse', 'sort'):
                        st = st.drop(('val', lname)).drop(('bool', lname))
                        st = st.drop_if(lambda k, v: k[0] == 'cond' and lname in k[2])
                if c is not None:
                    t, f = self.method_effect(it, st, c, expr, as_cond)
                else:
                    t, f = self._user_call(it, st, expr)
                Ts += t
                Fs += f
            return Ts, Fs
        if isinstance(expr, ast.Attribute) or isinstance(expr, ast.Subscript):
            self.check_reads(s, expr, p.enclosing_stmt(self.f, expr))
            return [K(s, UNK)], [K(s, UNK)]
        # anything else: evaluate for effects, unknown truth
        outs = it.eval(expr, s) if not isinstance(expr, (ast.Compare,)) else [s]
        return [K(x, UNK) for x in outs], [K(x, UNK) for x in outs]

    def _compare(self, it, s, expr):
        K = lambda st, kind: st.set(('lastkind',), kind)
        terms = [expr.left] + list(expr.comparators)
        # evaluate operand side effects (calls inside comparisons), without treating position operands as reads
        states = [s]
        for tm in terms:
            if self.is_pos(tm) is None and not (isinstance(tm, ast.Name) and s.get(('snap', tm.id)) is not None):
                nxt = []
                for st in states:
                    self.check_reads(st, tm, self.p.enclosing_stmt(self.f, expr))
                    nxt += it.eval(tm, st)
                states = nxt
        Ts, Fs = [], []
        for st in states:
            t, f = self._compare1(st, expr)
            Ts += [K(x, T) for x in t]
            Fs += [K(x, FNN) for x in f]
        return Ts, Fs

    def _compare1(self, s, expr):
        if len(expr.ops) == 1:
            a, b, op = expr.left, expr.comparators[0], expr.ops[0]
            # a length whose range() loop has been entered is at least 1
            for x, y, flip in ((a, b, False), (b, a, True)):
                if isinstance(x, ast.Name) and s.get(('ge1', x.id)):
                    c_ = self.p.try_const(self.f, y)
                    if isinstance(c_, int) and not isinstance(c_, bool):
                        opn = type(op)
                        if flip:
                            opn = {ast.Lt: ast.Gt, ast.Gt: ast.Lt, ast.LtE: ast.GtE, ast.GtE: ast.LtE}.get(opn, opn)
                        res_ = None
                        if c_ <= 0:
                            res_ = {ast.Eq: False, ast.NotEq: True, ast.Lt: False, ast.LtE: False, ast.Gt: True, ast.GtE: True}.get(opn)
                        elif c_ == 1:
                            res_ = {ast.Lt: False, ast.GtE: True}.get(opn)
                        if res_ is True:
                            return [s], []
                        if res_ is False:
                            return [], [s]
            # counter  <op>  small constant
            for x, y, flip in ((a, b, False), (b, a, True)):
                if isinstance(x, ast.Name) and s.get(('cnt', x.id)) is not None:
                    c_ = self.p.try_const(self.f, y)
                    if isinstance(c_, int) and not isinstance(c_, bool):
                        v = s.get(('cnt', x.id))
                        opn = type(op)
                        if flip:
                            opn = {ast.Lt: ast.Gt, ast.Gt: ast.Lt, ast.LtE: ast.GtE, ast.GtE: ast.LtE}.get(opn, opn)
                        res_ = None
                        if v < 2:
                            res_ = {ast.Eq: v == c_, ast.NotEq: v != c_, ast.Lt: v < c_, ast.LtE: v <= c_, ast.Gt: v > c_, ast.GtE: v >= c_}.get(opn)
                        elif c_ <= 1:
                            res_ = {ast.Eq: False, ast.NotEq: True, ast.Lt: False, ast.LtE: False, ast.Gt: True, ast.GtE: True}.get(opn)
                        elif c_ == 2:
                            res_ = {ast.Lt: False, ast.GtE: True}.get(opn)
                        if res_ is True:
                            return [s], []
                        if res_ is False:
                            return [], [s]
            # cursor.pos  ==/!=  snapshot
            for x, y in ((a, b), (b, a)):
                c = self.is_pos(x)
                if c is not None and isinstance(y, ast.Name) and s.get(('snap', y.id)) is not None and s.get(('snap', y.id))[0] == c \
                        and isinstance(op, (ast.Eq, ast.NotEq)):
                    _, sd, sfr, sbr = s.get(('snap', y.id))
                    d, fr, br = self.cur(s, c)
                    same = self._adopt(s, c, y.id)          # positions equal: adopt the snapshot's facts
                    diff = s
                    if sd == 'Z':
                        nd = {'NN': 'P', 'NP': 'N'}.get(d, d)
                        diff = self.setcur(s, c, (nd, fr, br)) if d != 'Z' else None
                    if sd == d == 'Z':
                        diff = None
                    eq_states = [same] if same is not None else []
                    ne_states = [diff] if diff is not None else []
                    if (d, sd) in (('P', 'Z'), ('N', 'Z')):
                        eq_states = []
                    return (eq_states, ne_states) if isinstance(op, ast.Eq) else (ne_states, eq_states)
                # cursor.pos < len(..) / cursor.end ; cursor.pos >= 0 ; cursor.pos > 0
                if c is not None:
                    r = self._bound_compare(s, c, x is a, op, y)
                    if r is not None:
                        return r
            # peek variable against constants
            for x, y in ((a, b), (b, a)):
                pk = None
                if isinstance(x, ast.Name):
                    pk = s.get(('peek', x.id))
                elif isinstance(x, ast.Call):
                    pk = self._peek_expr(s, x)
                if pk is not None:
                    if True:
                        cv = self.p.try_const(self.f, y)
                        nonempty_const = (isinstance(cv, str) and cv != '') or (isinstance(cv, tuple) and all(isinstance(e, str) and e for e in cv) and cv)
                        if isinstance(op, (ast.Eq, ast.In)) and nonempty_const:
                            return [self.refine_room(s, pk[0], pk[1])], [s]
                        if isinstance(op, (ast.NotEq, ast.NotIn)) and nonempty_const:
                            return [s], [self.refine_room(s, pk[0], pk[1])]
                        if isinstance(op, ast.In) and isinstance(cv, str) and x is a:
                            return [s], [s]     # '' in 'abc' is True: no refinement (SCN-EMPTY)
            # snapshot != snapshot etc: no facts
            # val facts: `x is None` / `x is not None`
            if isinstance(op, (ast.Is, ast.IsNot)) and isinstance(a, ast.Name) and isinstance(b, ast.Constant) and b.value is None:
                v = s.get(('val', a.id))
                if v is not None and v != UNK:
                    isnone = v == NONE
                    res = ([s], []) if isnone else ([], [s])
                    return res if isinstance(op, ast.Is) else (res[1], res[0])
                bt = s.get(('bool', a.id))
                if bt is True:
                    return ([], [s]) if isinstance(op, ast.Is) else ([s], [])
                return [s.set(('val', a.id), NONE)], [s]
        elif len(expr.ops) == 2:
            # 0 <= pos < len(x)  style chains: treat each link
            pass
        return [s], [s]

    def _adopt(self, s, c, snapname):
        _, sd, sfr, sbr = s.get(('snap', snapname))
        d, fr, br = self.cur(s, c)
        # both descriptions are true of the same position: combine
        nd = sd if sd in ('Z', 'P', 'N') else d
        if {d, sd} == {'P', 'N'} or (d == 'P' and sd == 'Z') or (d == 'N' and sd == 'Z'):
            return None
        nfr = sfr if fr is None else (fr if sfr is None else max(fr, sfr))
        nbr = sbr if br is None else (br if sbr is None else max(br, sbr))
        st = self.setcur(s, c, (nd, nfr, nbr))
        for key, v in list(st.facts.items()):
            if key[0] == 'lp' and key[2] == c:
                rec = st.get(('lpsnap', key[1], snapname))
                if rec is not None:
                    st = st.set(key, rec)
        return st

    def _bound_compare(self, s, c, pos_on_left, op, other):
        """comparisons of cursor.pos with its bounds"""
        d, fr, br = self.cur(s, c)
        osrc = src_of(other)
        upper = osrc in ('len(%s.text)' % c, 'len(%s.string)' % c, '%s.end' % c, '%s.size' % c, 'l', 'len(text)', 'len(line)', 'len(%s.tokens)' % c) \
            or (isinstance(other, ast.Name) and s.get(('intfact', other.id)) == (0, 0) and False)
        if isinstance(other, ast.Name):
            vals = self.p.local_assignments(self.f, other.id)
            if len(vals) == 1 and vals[0] is not None and src_of(vals[0]) in ('len(text)', 'len(%s.text)' % c, 'len(line)'):
                upper = True
        zero = self.p.try_const(self.f, other) == 0
        if not pos_on_left:
            op = {ast.Lt: ast.Gt, ast.Gt: ast.Lt, ast.LtE: ast.GtE, ast.GtE: ast.LtE}.get(type(op), type(op))()
        if upper:
            if isinstance(op, ast.Lt):      # pos < end
                return [self.setcur(s, c, (d, rmax(fr, 1), br))], ([] if (fr is not None and fr >= 1) else [s])
            if isinstance(op, ast.GtE):     # pos >= end
                return ([] if (fr is not None and fr >= 1) else [s]), [self.setcur(s, c, (d, rmax(fr, 1), br))]
        if zero:
            if isinstance(op, ast.Gt):      # pos > 0
                return [self.setcur(s, c, (d, fr, rmax(br, 1)))], [s]
            if isinstance(op, ast.GtE):     # pos >= 0
                return [self.setcur(s, c, (d, fr, rmax(br, 0)))], ([] if (br is not None and br >= 0) else [self.setcur(s, c, (d, fr, br))])
        return None

    def _user_call(self, it, s, call):
        """call of a project function / unknown callable"""
        K = lambda st, kind: st.set(('lastkind',), kind)
        p = self.p
        tgt = p.resolve_call(self.f, call)
        cursor_args = [(i, self.cursor_of(a)) for i, a in enumerate(call.args) if self.cursor_of(a) is not None]
        # a cursor that moves out of sight: one of its methods handed over as a value (map(scanner.eat, ..)), or used inside a
        # comprehension / generator / lambda among the arguments (all(scanner.eat(c) for c in ..)): displacement unknown
        hidden = set()
        for a in list(call.args) + [k.value for k in call.keywords]:
            if isinstance(a, ast.Attribute) and self.cursor_of(a.value) is not None and a.attr not in ('pos', 'start', 'end', 'string', 'text', 'tokens', 'size'):
                hidden.add(self.cursor_of(a.value))
            for n in ast.walk(a):
                if isinstance(n, (ast.GeneratorExp, ast.ListComp, ast.SetComp, ast.DictComp, ast.Lambda)):
                    for x in ast.walk(n):
                        if isinstance(x, ast.Name) and x.id in self.cursors:
                            hidden.add(x.id)
        if hidden:
            st = s
            for hc in sorted(hidden):
                st = self.unknown_move(st, hc)
            return [K(st, UNK)], [K(st, UNK)]
        if isinstance(tgt, Class) and tgt.qualname in self.an.token_classes():
            self._check_span(s, call, tgt)
        if isinstance(tgt, list) and len(tgt) == 1 and self._span_forwarder(tgt[0]):
            self._check_span_forward(s, call, tgt[0])
        if not cursor_args:
            # does not touch our cursors; classify result where cheap
            if isinstance(tgt, Class):
                return [K(s, T)], []
            pk = self._peek_of_arg(s, call)
            if pk is not None and isinstance(tgt, list) and len(tgt) == 1:
                q = tgt[0].qualname
                sat = s.get(('peeksat', pk[0], pk[1]), frozenset())
                if any(self.implies(q1, q) for q1 in sat):
                    return [K(self.refine_room(s, pk[0], pk[1]), T)], []
                pf = self._peek_fn(s, call)
                ts = s.set(('peeksat', pk[0], pk[1]), sat | {q})
                if call.args and isinstance(call.args[0], ast.Name) and not self.an.truthy_on_empty(tgt[0], CURSOR_CLASSES[self.cursors[pk[0]]][0]) \
                        and tgt[0].qualname not in self.an.vague_preds:
                    ts = ts.set(('nechar', call.args[0].id), True)       # the variable holds a character the predicate accepts: not the empty sentinel
                if pf is not None:
                    ts = self.refine_room(ts, pf[0], pf[1])
                return [K(ts, T)], [K(s, UNK)]
            pf = self._peek_fn(s, call)
            if pf is not None:
                return [K(self.refine_room(s, pf[0], pf[1]), T)], [K(s, UNK)]
            if isinstance(tgt, list) and len(tgt) == 1 and not self.an.cursor_params(tgt[0]):
                kinds = self._ret_kinds(tgt[0])
                ts = [K(s, T)] if (T in kinds or UNK in kinds) else []
                fs = [K(s, k) for k in kinds if k != T]
                if UNK in kinds and not fs:
                    fs = [K(s, UNK)]
                return ts, fs
            return [K(s, UNK)], [K(s, UNK)]
        if len(cursor_args) > 1:
            raise AnalysisError('call with two cursors: %s' % src_of(call))
        ai, c = cursor_args[0]
        if not (isinstance(tgt, list) and tgt):
            if isinstance(tgt, Class):
                return [K(s, T)], []
            # cursor handed to an unknown callable
            st = self.unknown_move(s, c)
            return [K(st, UNK)], [K(st, UNK)]
        Ts, Fs = [], []
        d, fr, br = self.cur(s, c)
        for g in tgt:
            shift = 1 if (g.cls is not None and isinstance(call.func, ast.Attribute)) else 0
            if ai + shift >= len(g.params):
                raise AnalysisError('cannot bind cursor argument in %s' % src_of(call))
            cname = g.params[ai + shift]
            ne = []
            for j, a in enumerate(call.args):
                if j + shift < len(g.params) and self._nonempty_seq(s, a):
                    ne.append(g.params[j + shift])
            outs = self.an.summary(g, cname, (fr, br, tuple(sorted(ne))))
            for o in outs:
                st = self.apply_outcome(s, c, o)
                if o.snapret:
                    st = st.set(('retsnapval',), (c, d, fr, br))
                weak = st.set(('weakz',), g.short) if o.d == 'Z' else st     # "succeeded without moving" may be an infeasible combination of the summary
                if o.kind == T:
                    Ts.append(K(weak, T))
                elif o.kind in (NONE, FNN):
                    Fs.append(K(st, o.kind))
                else:
                    Ts.append(K(weak, UNK))
                    Fs.append(K(st, UNK))
        return Ts, Fs

    # ---------------------------------------------------------------- spans
    TOKENIZER_MODULES = ('emmet.abbreviation.tokenizer', 'emmet.css_abbreviation.tokenizer')

    def _span_forwarder(self, g):
        """create_literal-like helper: parameters (.., start=None, end=None) defaulting to <cursor>.start / <cursor>.pos
        (recognised on the normal form, where `if p is None: p = d` and `p = d if p is None else p` coincide)"""
        if g.module.name not in self.TOKENIZER_MODULES or 'start' not in g.params or 'end' not in g.params:
            return False
        from . import norm
        from .pattern import find_stmt
        n = norm.nf(self.p, g, inline=False)
        a = find_stmt('start = $c.start if start is None else start', n)
        b = find_stmt('end = $c.pos if end is None else end', n)
        return len(a) == 1 and len(b) == 1

    def _start_ok(self, s, a):
        """(ok, why) for a start-of-span argument"""
        if isinstance(a, ast.Name):
            sn = s.get(('snap', a.id))
            if sn is not None:
                if sn[1] == 'Z':
                    return True, 'position saved at entry'
                return False, 'position `%s` was saved after the cursor had moved (displacement %s)' % (a.id, sn[1])
            if a.id in self.f.params and self._span_forwarder(self.f):
                return True, 'forwarded parameter'
            return False, '`%s` is not a saved cursor position' % a.id
        if isinstance(a, ast.Call):
            t = self.p.resolve_call(self.f, a)
            if isinstance(t, list) and len(t) == 1:
                outs = [o for k, v in self.an.memo.items() if k[0] == t[0].qualname for o in v]
                if outs and all(o.snapret and o.d == 'P' for o in outs):
                    return True, '%s() returns the position it found and steps over it' % t[0].name
        return False, '`%s` is not a saved cursor position' % src_of(a)

    def _check_span(self, s, call, tgt):
        f = self.f
        if f.module.name not in self.TOKENIZER_MODULES:
            return
        rep = self.an.report
        construct = src_of(call)
        init = self.p.find_method(tgt, '__init__')
        own = list(init.params[1:]) if (init is not None and init.cls is tgt) else []
        starred = any(isinstance(a, ast.Starred) for a in call.args)
        if starred and (len(call.args) < 2 or any(isinstance(a, ast.Starred) for a in call.args[-2:])):
            return          # positional arguments spliced from a sequence: which ones are the span is not visible
        if len(call.args) != len(own) + 2 and not starred:
            st = self.p.enclosing_stmt(f, call)
            var = st.targets[0].id if isinstance(st, ast.Assign) and isinstance(st.targets[0], ast.Name) else None
            stored = set()
            if var:
                for n in f.body_nodes():
                    if isinstance(n, ast.Assign) and isinstance(n.targets[0], ast.Attribute) and isinstance(n.targets[0].value, ast.Name) \
                            and n.targets[0].value.id == var and n.targets[0].attr in ('start', 'end'):
                        stored.add(n.targets[0].attr)
            passed = set()
            n_span = len(call.args) - len(own)
            if n_span == 1 and not call.keywords:
                passed = {'start'}              # (.., start) given to the constructor, end stored afterwards
            for k in call.keywords:
                if k.arg in ('start', 'end'):
                    passed.add(k.arg)
            if (stored | passed) != {'start', 'end'}:
                rep.bad('SCN-SPAN', f, call, construct, 'token is built without its span: %s never set (its position is None for every consumer)'
                        % ' and '.join(sorted({'start', 'end'} - stored - passed)), s)
            elif passed == {'start'} and n_span == 1:
                ok, why = self._start_ok(s, call.args[-1])
                if ok:
                    rep.ok('SCN-SPAN', f, construct)
                else:
                    rep.bad('SCN-SPAN', f, call, construct, 'start of the token span: ' + why, s)
            else:
                rep.ok('SCN-SPAN', f, construct)
            return
        a_start, a_end = call.args[-2], call.args[-1]
        c = self.is_pos(a_end)
        end_ok = c is not None or (isinstance(a_end, ast.Name) and a_end.id in f.params and self._span_forwarder(f))
        ok, why = self._start_ok(s, a_start)
        if ok and end_ok:
            if c is not None and self.cur(s, c)[0] != 'P':
                d_ = self.cur(s, c)[0]
                rep.bad('SCN-SPAN', f, call, construct, 'the token may be empty: the cursor has not provably advanced since the saved start (displacement %s)' % d_, s,
                        **({'undecided': 'the cursor is positioned by code the cursor domain cannot follow'} if d_ == 'U' else {}))
            else:
                rep.ok('SCN-SPAN', f, construct)
        elif not ok:
            rep.bad('SCN-SPAN', f, call, construct, 'start of the token span: ' + why, s)
        else:
            rep.bad('SCN-SPAN', f, call, construct, 'end of the token span `%s` is not the current cursor position' % src_of(a_end), s)

    def _check_span_forward(self, s, call, g):
        f = self.f
        rep = self.an.report
        construct = src_of(call)
        shift = 0
        args = {}
        for i, a in enumerate(call.args):
            if i < len(g.params):
                args[g.params[i]] = a
        for k in call.keywords:
            args[k.arg] = k.value
        cname = [a.id for a in call.args if self.cursor_of(a)]
        if not cname:
            return
        c = cname[0]
        if 'start' in args:
            a = args['start']
            if isinstance(a, ast.Name) and s.get(('snap', a.id)) is None:
                # spans copied from existing tokens (merge_tokens): checked structurally by the rule
                rep.ok('SCN-SPAN', f, construct + ' (span copied from merged tokens)')
                return
            ok, why = self._start_ok(s, a)
        else:
            d0 = s.get(('startsnap', c))
            ok, why = (d0 == 'Z'), ('scanner.start was not set to the position saved at entry before the token is built' if d0 != 'Z' else 'scanner.start = entry position')
        if not ok:
            rep.bad('SCN-SPAN', f, call, construct, 'start of the token span: ' + why, s)
        elif 'end' not in args and self.cur(s, c)[0] != 'P':
            rep.bad('SCN-SPAN', f, call, construct, 'the token may be empty: the cursor has not provably advanced since the saved start', s,
                    **({'undecided': 'the cursor is positioned by code the cursor domain cannot follow'} if self.cur(s, c)[0] == 'U' else {}))
        else:
            rep.ok('SCN-SPAN', f, construct)

    def _nonempty_seq(self, s, a):
        v = self.p.try_const(self.f, a)
        if isinstance(v, (str, list, tuple)) and len(v) > 0:
            return True
        if isinstance(a, ast.Name) and s.get(('nonempty', a.id)):
            return True
        return False

    def for_may_be_empty(self, it, s, loop):
        return not self._nonempty_seq(s, loop.iter)

    def _ret_kinds(self, g):
        """cheap syntactic classification of the return values of a cursor-free function"""
        key = g.qualname
        cache = self.an.__dict__.setdefault('_rk', {})
        if key in cache:
            return cache[key]
        cache[key] = {UNK}
        kinds = set()
        falls = True
        for n in g.body_nodes():
            if isinstance(n, ast.Return):
                v = n.value
                if v is None or (isinstance(v, ast.Constant) and v.value is None):
                    kinds.add(NONE)
                elif isinstance(v, ast.Constant):
                    kinds.add(T if v.value else FNN)
                elif isinstance(v, ast.Call) and isinstance(self.p.resolve_call(g, v), Class):
                    kinds.add(T)
                else:
                    kinds.add(UNK)
        last = g.node.body[-1] if g.node.body else None
        if not isinstance(last, (ast.Return, ast.Raise)):
            kinds.add(NONE)
        cache[key] = kinds
        return kinds

    # -------------------------------------------------------------- returns
    def on_return(self, it, s, value, stmt):
        kind = UNK
        snapret = False
        if value is None:
            kind = NONE
        elif isinstance(value, tuple):
            _, truth, expr = value
            lk = s.get(('lastkind',))
            if truth:
                kind = T
            else:
                kind = lk if lk in (NONE, FNN) else FNN
            if isinstance(expr, ast.Call) and isinstance(self.p.resolve_call(self.f, expr), Class):
                kind = T
            if not truth and lk == UNK:
                kind = UNK
            if truth and lk == UNK:
                kind = UNK
            self._check_ctor(s, expr, stmt)
        else:
            self.check_reads(s, value, stmt)
            if isinstance(value, ast.Constant):
                kind = NONE if value.value is None else (T if value.value else FNN)
            elif isinstance(value, ast.Name):
                v = s.get(('val', value.id))
                b = s.get(('bool', value.id))
                if v is not None:
                    kind = v
                elif b is True:
                    kind = T
                elif b is False:
                    kind = FNN
                elif value.id in self.f.locals and value.id not in self.f.params and self.f.qualname not in REVIEWED_SUMMARIES:
                    # `return tok` where every assignment of tok is a constructor call of a class without __bool__ / __len__:
                    # an instance of such a class is truthy
                    vals = self.p.local_assignments(self.f, value.id)
                    if vals and all(isinstance(x, ast.Call) and isinstance(self.p.resolve_call(self.f, x), Class)
                                    and not any(self.p.find_method(self.p.resolve_call(self.f, x), m) is not None for m in ('__bool__', '__len__')) for x in vals):
                        kind = T
                sn = s.get(('snap', value.id))
                if sn is not None and sn[1] == 'Z':
                    snapret = True
            elif isinstance(value, (ast.Tuple, ast.List)):
                kind = T if value.elts else FNN
        s = s.set(('retkind',), kind)
        if snapret:
            s = s.set(('retsnap',), True)
        return s

    def _check_ctor(self, s, expr, stmt):
        pass

    def _cursor_related(self, expr, s):
        for n in ast.walk(expr):
            if isinstance(n, (ast.Attribute, ast.Name, ast.Subscript)) and self.is_pos(n) is not None:
                return True
            if isinstance(n, ast.Name) and any(s.get((k, n.id)) is not None for k in ('snap', 'cnt', 'bool', 'val', 'peek')):
                return True
            if isinstance(n, ast.Call) and isinstance(n.func, ast.Attribute) and self.cursor_of(n.func.value) is not None:
                return True
        return False

    # ---------------------------------------------------------------- loops
    def _loop_cursor(self, loop):
        """cursor whose bound the loop condition tests, and the direction of travel"""
        if not isinstance(loop, ast.While):
            return None
        key = id(loop)
        if key in self.loop_bound_cache:
            return self.loop_bound_cache[key]
        res = None
        for n in ast.walk(loop.test):
            if isinstance(n, ast.Call) and isinstance(n.func, ast.Attribute) and self.cursor_of(n.func.value) is not None \
                    and n.func.attr in ('eof', 'readable', 'sol'):
                c = self.cursor_of(n.func.value)
                res = (c, BWD if n.func.attr == 'sol' else FWD)
            elif res is None and isinstance(n, ast.Call) and isinstance(n.func, ast.Attribute) and self.cursor_of(n.func.value) is not None \
                    and n.func.attr in ('next', 'previous') and not n.args:
                # `while cursor.next():` is bounded by the cursor too (next() returns None at the bound)
                c = self.cursor_of(n.func.value)
                res = (c, FWD if (n.func.attr == 'next') == (self.direction(c) == FWD) else BWD)
            elif isinstance(n, ast.Compare) and len(n.ops) == 1:
                for x, y in ((n.left, n.comparators[0]), (n.comparators[0], n.left)):
                    c = self.is_pos(x)
                    if c is not None:
                        op = n.ops[0]
                        if x is not n.left:
                            op = {ast.Lt: ast.Gt, ast.Gt: ast.Lt, ast.LtE: ast.GtE, ast.GtE: ast.LtE}.get(type(op), type(op))()
                        if isinstance(op, (ast.Lt, ast.LtE)):
                            res = (c, FWD)
                        elif isinstance(op, (ast.Gt, ast.GtE)):
                            res = (c, BWD)
        self.loop_bound_cache[key] = res
        return res

    def loop_iter(self, it, s, loop):
        lc = self._loop_cursor(loop)
        if lc is None:
            return s
        c, dirn = lc
        lid = loop.lineno
        s = s.set(('lp', lid, c), 'Z').drop(('ate', c)).set(('fresh', lid, c), True).drop(('weakz',))
        # snapshots taken before this iteration are not comparable with the marker
        s = s.drop_if(lambda k, v: k[0] == 'lpsnap' and k[1] == lid)
        self.an.loops.setdefault((self.f.qualname, lid), {'cursor': c, 'dir': dirn, 'ok': 0, 'func': self.f, 'node': loop})
        return s

    def assign_snapshot_marker(self, s, name):
        return s

    def loop_back(self, it, s, loop):
        lc = self._loop_cursor(loop)
        if lc is None:
            return s
        c, dirn = lc
        lid = loop.lineno
        v = s.get(('lp', lid, c))
        good = 'P' if dirn == FWD else 'N'
        info = self.an.loops[(self.f.qualname, lid)]
        if s.get(('esc', c)) is not None:
            self.an.report.bad('SCN-ESCAPE', self.f, loop, 'while %s' % src_of(loop.test),
                               'a path consumes the escape character (line %d) and reaches the next iteration without consuming the character after it: '
                               'the escaped character is then examined like an ordinary one (an escaped quote ends the string)' % s.get(('esc', c)), s)
        else:
            self.an.report.ok('SCN-ESCAPE', self.f, 'while %s' % src_of(loop.test))
        if v != good:
            self.an.report.bad('SCN-PROGRESS', self.f, loop, 'while %s' % src_of(loop.test),
                               'a path through the loop body reaches the back edge without moving the cursor %s (displacement %s): the loop may not terminate'
                               % ('forward' if dirn == FWD else 'backward', v), s, undecided=(v == 'U' or s.get(('weakz',)) is not None))
        else:
            info['ok'] += 1
        return s.drop(('lp', lid, c)).drop(('fresh', lid, c)).drop_if(lambda k, vv: k[0] == 'lpsnap' and k[1] == lid)

    def loop_exit(self, it, s, loop):
        lc = self._loop_cursor(loop)
        if lc is None:
            return s
        c, dirn = lc
        lid = loop.lineno
        return s.drop(('lp', lid, c)).drop(('fresh', lid, c)).drop_if(lambda k, vv: k[0] == 'lpsnap' and k[1] == lid)

    def for_target(self, it, s, loop):
        # an iteration of `for .. in range(n)` / `range(n - 1, -1, -1)` / `range(0, n)` is entered only when n >= 1
        itx = loop.iter
        if isinstance(itx, ast.Call) and isinstance(itx.func, ast.Name) and itx.func.id == 'range' and not itx.keywords:
            nm = None
            a = itx.args
            if len(a) == 1 and isinstance(a[0], ast.Name):
                nm = a[0].id
            elif len(a) == 2 and self.p.try_const(self.f, a[0]) == 0 and isinstance(a[1], ast.Name):
                nm = a[1].id
            elif len(a) == 3 and self.p.try_const(self.f, a[1]) == -1 and self.p.try_const(self.f, a[2]) == -1 and isinstance(a[0], ast.BinOp) \
                    and isinstance(a[0].op, ast.Sub) and isinstance(a[0].left, ast.Name) and self.p.try_const(self.f, a[0].right) == 1:
                nm = a[0].left.id
            if nm is not None and not any(isinstance(x, ast.Name) and x.id == nm and isinstance(x.ctx, ast.Store) for st in loop.body for x in ast.walk(st)):
                s = s.set(('ge1', nm), True)
        for n in ast.walk(loop.target):
            if isinstance(n, ast.Name):
                s = s.drop(('snap', n.id)).drop(('peek', n.id)).drop(('bool', n.id)).drop(('val', n.id))
                s = s.set(('elem', n.id), True)      # an element of the iterated sequence, never the empty sentinel
        return [s]
