"""Project model: loader, symbol tables, name/attribute/call resolution, light
nominal types and literal constant evaluation.  stdlib `ast` only.
"""
import ast
import hashlib
import os
import builtins

REPO = os.environ.get('EMSA_REPO', '/repo')
PKG = 'emmet'


class AnalysisError(Exception):
    """The analysis cannot decide (unrecognised idiom, vanished anchor, floor
    missed).  Reported as ANALYSIS-ERROR, exit code 2 - never a silent pass."""


BUILTIN_NAMES = set(dir(builtins))


def src_of(node):
    """Normalised source of a node (used as a line-independent key)."""
    try:
        return ast.unparse(node)
    except Exception:  # pragma: no cover
        return ast.dump(node)


def _reflect_norm(tree):
    """Reflection over a *literal* set of attribute names is spelled out, so that every engine sees plain attribute reads and
    writes:  `for n in ('a', 'b'): setattr(o, n, f(getattr(p, n)))`  (the tuple written in place or bound once at module level
    in the same module, loop body without break / continue) is unrolled, then `getattr(o, 'a')` -> `o.a`, a statement
    `setattr(o, 'a', v)` -> `o.a = v`.  Anything else (a computed name) is left as it is and reported by CENSUS."""
    import copy as _copy
    consts = {}
    for st in tree.body:
        if isinstance(st, ast.Assign) and len(st.targets) == 1 and isinstance(st.targets[0], ast.Name) and isinstance(st.value, (ast.Tuple, ast.List)) \
                and st.value.elts and all(isinstance(e, ast.Constant) and isinstance(e.value, str) and e.value.isidentifier() for e in st.value.elts):
            consts[st.targets[0].id] = None if st.targets[0].id in consts else st.value
    reflective = ('getattr', 'setattr', 'hasattr')

    def uses_reflect(body, var):
        for st in body:
            for n in ast.walk(st):
                if isinstance(n, ast.Call) and isinstance(n.func, ast.Name) and n.func.id in reflective and len(n.args) >= 2 \
                        and isinstance(n.args[1], ast.Name) and n.args[1].id == var:
                    return True
        return False

    class Sub(ast.NodeTransformer):
        def __init__(self, var, value):
            self.var, self.value = var, value

        def visit_Name(self, n):
            if n.id == self.var and isinstance(n.ctx, ast.Load):
                return ast.copy_location(ast.Constant(value=self.value), n)
            return n

    class Unroll(ast.NodeTransformer):
        changed = False

        def visit_For(self, st):
            self.generic_visit(st)
            it = st.iter
            if isinstance(it, ast.Name) and consts.get(it.id) is not None:
                it = consts[it.id]
            if isinstance(st.target, ast.Name) and isinstance(it, (ast.Tuple, ast.List)) and it.elts and not st.orelse \
                    and all(isinstance(e, ast.Constant) and isinstance(e.value, str) and e.value.isidentifier() for e in it.elts) \
                    and uses_reflect(st.body, st.target.id) \
                    and not any(isinstance(x, (ast.Break, ast.Continue)) or (isinstance(x, ast.Name) and x.id == st.target.id and isinstance(x.ctx, ast.Store))
                                for b in st.body for x in ast.walk(b)):
                out = []
                for e in it.elts:
                    for b in st.body:
                        out.append(Sub(st.target.id, e.value).visit(_copy.deepcopy(b)))
                Unroll.changed = True
                return out
            return st

    class Attr(ast.NodeTransformer):
        def visit_Expr(self, st):
            self.generic_visit(st)
            c = st.value
            if isinstance(c, ast.Call) and isinstance(c.func, ast.Name) and c.func.id == 'setattr' and len(c.args) == 3 and not c.keywords \
                    and isinstance(c.args[1], ast.Constant) and isinstance(c.args[1].value, str) and c.args[1].value.isidentifier():
                new = ast.Assign(targets=[ast.Attribute(value=c.args[0], attr=c.args[1].value, ctx=ast.Store())], value=c.args[2])
                return ast.fix_missing_locations(ast.copy_location(new, st))
            return st

        def visit_Call(self, c):
            self.generic_visit(c)
            if isinstance(c.func, ast.Name) and c.func.id == 'getattr' and len(c.args) == 2 and not c.keywords \
                    and isinstance(c.args[1], ast.Constant) and isinstance(c.args[1].value, str) and c.args[1].value.isidentifier():
                return ast.fix_missing_locations(ast.copy_location(ast.Attribute(value=c.args[0], attr=c.args[1].value, ctx=ast.Load()), c))
            return c
    if not any(isinstance(n, ast.Call) and isinstance(n.func, ast.Name) and n.func.id in ('setattr', 'getattr') for n in ast.walk(tree)):
        return tree
    tree = Unroll().visit(tree)
    tree = Attr().visit(tree)
    return ast.fix_missing_locations(tree)


def _booltable_norm(tree):
    """`T[<boolean expression>]` with T a module-level dict display bound once in the same module, never written, whose keys are
    exactly True and False and whose values are literals  ->  `T[True] if <expr> else T[False]` (spelled with the literals)."""
    import copy as _copy
    cand, count = {}, {}
    for st in tree.body:
        for t in (st.targets if isinstance(st, ast.Assign) else [st.target] if isinstance(st, (ast.AnnAssign, ast.AugAssign)) else []):
            for n in ast.walk(t):
                if isinstance(n, ast.Name):
                    count[n.id] = count.get(n.id, 0) + 1
        if isinstance(st, ast.Assign) and len(st.targets) == 1 and isinstance(st.targets[0], ast.Name) and isinstance(st.value, ast.Dict) \
                and len(st.value.keys) == 2 and all(isinstance(k, ast.Constant) and isinstance(k.value, bool) for k in st.value.keys) \
                and {k.value for k in st.value.keys} == {True, False} \
                and all(isinstance(v, ast.Constant) or (isinstance(v, ast.Tuple) and all(isinstance(x, ast.Constant) for x in v.elts)) for v in st.value.values):
            cand[st.targets[0].id] = {k.value: v for k, v in zip(st.value.keys, st.value.values)}
    cand = {k: v for k, v in cand.items() if count.get(k) == 1}
    if not cand:
        return tree
    for n in ast.walk(tree):
        # any other binding or write of the name anywhere in the module disqualifies it
        if isinstance(n, ast.Name) and n.id in cand and not isinstance(n.ctx, ast.Load) and n.col_offset != 0:
            cand.pop(n.id)
        elif isinstance(n, (ast.arg,)) and n.arg in cand:
            cand.pop(n.arg)
        elif isinstance(n, ast.Subscript) and isinstance(n.value, ast.Name) and n.value.id in cand and not isinstance(n.ctx, ast.Load):
            cand.pop(n.value.id)
        elif isinstance(n, ast.Call) and isinstance(n.func, ast.Attribute) and isinstance(n.func.value, ast.Name) and n.func.value.id in cand \
                and n.func.attr not in ('get', 'keys', 'values', 'items', 'copy'):
            cand.pop(n.func.value.id)
        elif isinstance(n, (ast.Global, ast.Nonlocal)):
            pass
    if not cand:
        return tree

    def boolean(e):
        if isinstance(e, ast.Compare):
            return True
        if isinstance(e, ast.UnaryOp) and isinstance(e.op, ast.Not):
            return True
        if isinstance(e, ast.BoolOp):
            return all(boolean(v) for v in e.values)
        if isinstance(e, ast.Call) and isinstance(e.func, ast.Name) and e.func.id in ('bool', 'isinstance', 'callable', 'hasattr'):
            return True
        return False

    class T(ast.NodeTransformer):
        def visit_Subscript(self, n):
            self.generic_visit(n)
            if isinstance(n.ctx, ast.Load) and isinstance(n.value, ast.Name) and n.value.id in cand and boolean(n.slice):
                d = cand[n.value.id]
                new = ast.IfExp(test=n.slice, body=_copy.deepcopy(d[True]), orelse=_copy.deepcopy(d[False]))
                return ast.fix_missing_locations(ast.copy_location(new, n))
            return n
    return T().visit(tree)


def _optdefault_norm(tree):
    """`<..>.options.get('key') or <empty literal>` and `<..>.options.get('key', <empty literal>) or <empty literal>`  ->
    `<..>.options.get('key', <empty literal>)`: an option that is present holds a value of its documented type, so the `or` only
    replaces an empty value by an empty value of the same kind (it matters for an option explicitly set to None, which is outside
    every property's domain)"""
    def empty(e):
        return (isinstance(e, ast.Constant) and e.value in ('', 0) and not isinstance(e.value, bool)) or (isinstance(e, (ast.List, ast.Tuple)) and not e.elts) \
            or (isinstance(e, ast.Dict) and not e.keys)

    def optread(e):
        if not (isinstance(e, ast.Call) and isinstance(e.func, ast.Attribute) and e.func.attr == 'get' and 1 <= len(e.args) <= 2
                and isinstance(e.args[0], ast.Constant) and isinstance(e.args[0].value, str) and not e.keywords):
            return False
        r = e.func.value
        # configuration options are spelled `section.name` (plus `inlineElements`); the formatter profiles (`beforeName`, ..) are not options
        k = e.args[0].value
        return ((isinstance(r, ast.Attribute) and r.attr == 'options') or (isinstance(r, ast.Name) and r.id == 'options')) and ('.' in k or k == 'inlineElements')

    class T(ast.NodeTransformer):
        # canonical spelling: the bare read `<..>.options.get('key')`
        def visit_BoolOp(self, n):
            self.generic_visit(n)
            if isinstance(n.op, ast.Or) and len(n.values) == 2 and optread(n.values[0]) and empty(n.values[1]) and len(n.values[0].args) == 1:
                return n.values[0]
            return n

        def visit_Call(self, n):
            self.generic_visit(n)
            if optread(n) and len(n.args) == 2 and empty(n.args[1]):
                n.args = n.args[:1]
            return n
    return T().visit(tree)


class Module:
    def __init__(self, name, path, relpath, src):
        self.name = name
        self.path = path
        self.relpath = relpath
        self.src = src
        self.sha256 = hashlib.sha256(src.encode('utf-8')).hexdigest()
        self.tree = _optdefault_norm(_booltable_norm(_reflect_norm(ast.parse(src, filename=path))))
        self.is_package = os.path.basename(path) == '__init__.py'
        self.bindings = {}     # name -> Binding
        self.funcs = {}        # top-level functions
        self.classes = {}

    def __repr__(self):
        return '<Module %s>' % self.name


class Binding:
    __slots__ = ('kind', 'target', 'values')

    def __init__(self, kind, target=None, values=None):
        self.kind = kind        # func | class | import | module | assign
        self.target = target
        self.values = values or []


class Class:
    def __init__(self, module, node, parent=None):
        self.module = module
        self.node = node
        self.name = node.name
        self.parent = parent
        self.qualname = '%s.%s' % (module.name, node.name)
        self.methods = {}
        self.consts = {}
        self.slots = None
        self.base_exprs = node.bases

    def __repr__(self):
        return '<Class %s>' % self.qualname


class Func:
    def __init__(self, module, node, parent=None, cls=None):
        self.module = module
        self.node = node
        self.name = node.name
        self.parent = parent          # enclosing Func (closure) or None
        self.cls = cls                # Class if method
        if cls is not None:
            self.qualname = '%s.%s' % (cls.qualname, node.name)
        elif parent is not None:
            self.qualname = '%s.%s' % (parent.qualname, node.name)
        else:
            self.qualname = '%s.%s' % (module.name, node.name)
        self.nested = {}
        a = node.args
        self.params = [x.arg for x in a.posonlyargs + a.args]
        self.kwonly = [x.arg for x in a.kwonlyargs]
        self.vararg = a.vararg.arg if a.vararg else None
        self.kwarg = a.kwarg.arg if a.kwarg else None
        self.annotations = {}
        for x in a.posonlyargs + a.args + a.kwonlyargs:
            if x.annotation is not None:
                self.annotations[x.arg] = x.annotation
        # defaults aligned to params
        self.defaults = {}
        pos = a.posonlyargs + a.args
        for p, d in zip(pos[len(pos) - len(a.defaults):], a.defaults):
            self.defaults[p.arg] = d
        for p, d in zip(a.kwonlyargs, a.kw_defaults):
            if d is not None:
                self.defaults[p.arg] = d
        self._locals = None
        self._globals_decl = None
        self._nonlocal_decl = None
        self.is_property = any(isinstance(d, ast.Name) and d.id == 'property' for d in node.decorator_list)

    @property
    def short(self):
        """module-relative dotted name, e.g. css_matcher.scan.scan.notify"""
        return self.qualname[len(PKG) + 1:] if self.qualname.startswith(PKG + '.') else self.qualname

    def all_params(self):
        r = list(self.params)
        if self.vararg:
            r.append(self.vararg)
        r += self.kwonly
        if self.kwarg:
            r.append(self.kwarg)
        return r

    def body_nodes(self):
        """All AST nodes of this function excluding nested function/class bodies."""
        return list(iter_own_nodes(self.node))

    @property
    def globals_decl(self):
        if self._globals_decl is None:
            g = set()
            for n in self.body_nodes():
                if isinstance(n, ast.Global):
                    g.update(n.names)
            self._globals_decl = g
        return self._globals_decl

    @property
    def nonlocal_decl(self):
        if self._nonlocal_decl is None:
            g = set()
            for n in self.body_nodes():
                if isinstance(n, ast.Nonlocal):
                    g.update(n.names)
            self._nonlocal_decl = g
        return self._nonlocal_decl

    def rebound_by_nested(self):
        """names of this function that a nested function re-binds through `nonlocal`"""
        out = set()
        for g in self.nested.values():
            out |= g.nonlocal_decl | g.rebound_by_nested()
        return out

    @property
    def locals(self):
        if self._locals is None:
            names = set(self.all_params())
            for n in self.body_nodes():
                if isinstance(n, ast.Name) and isinstance(n.ctx, (ast.Store, ast.Del)):
                    names.add(n.id)
                elif isinstance(n, (ast.FunctionDef, ast.ClassDef)) and n is not self.node:
                    names.add(n.name)
            names -= self.globals_decl
            names -= self.nonlocal_decl
            self._locals = names
        return self._locals

    def __repr__(self):
        return '<Func %s>' % self.qualname


def iter_own_nodes(fnode):
    """Walk a function's AST without descending into nested defs/classes/lambdas
    (the nested def node itself is yielded, its body is not)."""
    stack = list(reversed(list(ast.iter_child_nodes(fnode))))
    while stack:
        n = stack.pop()
        yield n
        if isinstance(n, (ast.FunctionDef, ast.AsyncFunctionDef, ast.ClassDef, ast.Lambda)):
            if isinstance(n, ast.Lambda):
                continue
            # decorators / defaults are evaluated in the enclosing scope
            for d in getattr(n, 'decorator_list', []):
                stack.append(d)
            continue
        stack.extend(reversed(list(ast.iter_child_nodes(n))))


class Entity:
    """Result of resolution."""
    __slots__ = ('kind', 'obj', 'extra')

    def __init__(self, kind, obj=None, extra=None):
        self.kind = kind   # func | class | module | const | local | builtin | method
        self.obj = obj
        self.extra = extra

    def __repr__(self):
        return 'Entity(%s, %r)' % (self.kind, self.obj)


class Project:
    def __init__(self, root=None):
        self.root = root or REPO
        self.modules = {}
        self.funcs = {}     # qualname -> Func (all, incl nested and methods)
        self.classes = {}   # qualname -> Class
        self.consulted = set()
        self._load()
        self._index()
        self._field_types_cache = {}
        self._method_index = None
        self._type_busy = set()
        self._parents = {}

    # ------------------------------------------------------------------ load
    def _load(self):
        pkgdir = os.path.join(self.root, PKG)
        if not os.path.isdir(pkgdir):
            raise AnalysisError('package directory %s not found' % pkgdir)
        for dirpath, dirnames, filenames in os.walk(pkgdir):
            dirnames[:] = sorted(d for d in dirnames if d != '__pycache__')
            for fn in sorted(filenames):
                if not fn.endswith('.py'):
                    continue
                path = os.path.join(dirpath, fn)
                rel = os.path.relpath(path, self.root)
                parts = rel[:-3].split(os.sep)
                if parts[-1] == '__init__':
                    parts = parts[:-1]
                name = '.'.join(parts)
                with open(path, encoding='utf-8') as f:
                    src = f.read()
                try:
                    self.modules[name] = Module(name, path, rel, src)
                except SyntaxError as e:
                    raise AnalysisError('cannot parse %s: %s' % (rel, e))
        # entities that were renamed everywhere relative to the reviewed tree are mapped back to their reviewed names (names.py)
        self.renames = {}
        self.unchanged_defs = set()
        if not os.environ.get('EMSA_NO_RENAMES'):
            from . import names
            trees = {n: m.tree for n, m in self.modules.items()}
            self.renames = names.rename_maps(trees)
            names.apply(trees, self.renames)
            self.unchanged_defs = names.unchanged_defs(trees)

    def _index(self):
        for m in self.modules.values():
            self._index_module(m)

    def _index_module(self, m):
        def add_func(node, parent=None, cls=None):
            f = Func(m, node, parent, cls)
            self.funcs[f.qualname] = f
            for n in iter_own_nodes(node):
                if isinstance(n, ast.FunctionDef):
                    f.nested[n.name] = add_func(n, parent=f)
            return f

        def add_class(node):
            c = Class(m, node)
            self.classes[c.qualname] = c
            for st in node.body:
                if isinstance(st, ast.FunctionDef):
                    c.methods[st.name] = add_func(st, cls=c)
                elif isinstance(st, ast.Assign):
                    for t in st.targets:
                        if isinstance(t, ast.Name):
                            c.consts[t.id] = st.value
                            if t.id == '__slots__':
                                try:
                                    v = ast.literal_eval(st.value)
                                    c.slots = (v,) if isinstance(v, str) else tuple(v)
                                except Exception:
                                    c.slots = None
            return c

        def bind_stmt(st):
            if isinstance(st, ast.FunctionDef):
                f = add_func(st)
                m.funcs[st.name] = f
                m.bindings[st.name] = Binding('func', f)
            elif isinstance(st, ast.ClassDef):
                c = add_class(st)
                m.classes[st.name] = c
                m.bindings[st.name] = Binding('class', c)
            elif isinstance(st, ast.Import):
                for a in st.names:
                    m.bindings[a.asname or a.name.split('.')[0]] = Binding('module', a.name if a.asname else a.name.split('.')[0])
            elif isinstance(st, ast.ImportFrom):
                base = self._abs_module(m, st.module, st.level)
                for a in st.names:
                    m.bindings[a.asname or a.name] = Binding('import', (base, a.name))
            elif isinstance(st, (ast.Assign, ast.AnnAssign, ast.AugAssign)):
                targets = st.targets if isinstance(st, ast.Assign) else [st.target]
                for t in targets:
                    for n in ast.walk(t):
                        if isinstance(n, ast.Name) and isinstance(n.ctx, ast.Store):
                            b = m.bindings.get(n.id)
                            if b is None or b.kind != 'assign':
                                b = m.bindings[n.id] = Binding('assign')
                            if st.value is not None:
                                b.values.append(st.value if isinstance(t, ast.Name) else None)
            elif isinstance(st, (ast.If, ast.Try)):
                for sub in ast.iter_child_nodes(st):
                    if isinstance(sub, ast.stmt):
                        bind_stmt(sub)

        for st in m.tree.body:
            bind_stmt(st)

    def _abs_module(self, m, modname, level):
        if level == 0:
            return modname
        parts = m.name.split('.')
        if not m.is_package:
            parts = parts[:-1]
        if level > 1:
            parts = parts[:len(parts) - (level - 1)]
        if modname:
            parts = parts + modname.split('.')
        return '.'.join(parts)

    def parents(self, func):
        pm = self._parents.get(func.qualname)
        if pm is None:
            pm = self._parents[func.qualname] = parent_map(func.node)
        return pm

    def enclosing_stmt(self, func, node):
        pm = self.parents(func)
        while node is not None and not isinstance(node, ast.stmt):
            node = pm.get(node)
        return node

    # ------------------------------------------------------------- anchors
    def module(self, name):
        full = name if name.startswith(PKG) else '%s.%s' % (PKG, name)
        m = self.modules.get(full)
        if m is None:
            raise AnalysisError('anchor vanished: module %s' % full)
        self.consulted.add(m.name)
        return m

    def func(self, qual):
        """qual relative to package, e.g. 'css_matcher.scan.scan' or
        'scanner.Scanner.eat' or 'css_matcher.scan.scan.notify'."""
        full = qual if qual.startswith(PKG + '.') else '%s.%s' % (PKG, qual)
        f = self.funcs.get(full)
        if f is None:
            # re-exported name (from .format import stringify)
            modname, _, attr = full.rpartition('.')
            if modname in self.modules:
                e = self._module_attr(modname, attr)
                if e is not None and e.kind == 'func':
                    f = e.obj
        if f is None:
            raise AnalysisError('anchor vanished: function %s' % full)
        self.consulted.add(f.module.name)
        return f

    def cls(self, qual):
        full = qual if qual.startswith(PKG + '.') else '%s.%s' % (PKG, qual)
        c = self.classes.get(full)
        if c is None:
            raise AnalysisError('anchor vanished: class %s' % full)
        self.consulted.add(c.module.name)
        return c

    def find_funcs(self, module_prefix):
        full = module_prefix if module_prefix.startswith(PKG) else '%s.%s' % (PKG, module_prefix)
        return [f for f in self.funcs.values()
                if f.module.name == full or f.module.name.startswith(full + '.')]

    # ---------------------------------------------------------- resolution
    def _module_attr(self, modname, attr, seen=None):
        """Resolve attribute `attr` of module `modname` to an Entity."""
        seen = seen or set()
        key = (modname, attr)
        if key in seen:
            return None
        seen.add(key)
        m = self.modules.get(modname)
        if m is None:
            # maybe `modname.attr` is itself a module (package attribute)
            return Entity('extern', '%s.%s' % (modname, attr))
        b = m.bindings.get(attr)
        if b is None:
            sub = self.modules.get('%s.%s' % (modname, attr))
            if sub is not None:
                return Entity('module', sub)
            return None
        return self._binding_entity(m, attr, b, seen)

    def _binding_entity(self, m, name, b, seen=None):
        if b.kind == 'func':
            return Entity('func', b.target)
        if b.kind == 'class':
            return Entity('class', b.target)
        if b.kind == 'module':
            mm = self.modules.get(b.target)
            return Entity('module', mm) if mm else Entity('extern', b.target)
        if b.kind == 'import':
            base, attr = b.target
            sub = self.modules.get('%s.%s' % (base, attr)) if base else None
            if base in self.modules:
                e = self._module_attr(base, attr, seen)
                if e is not None:
                    return e
            if sub is not None:
                return Entity('module', sub)
            return Entity('extern', '%s.%s' % (base, attr))
        if b.kind == 'assign':
            return Entity('const', (m, name, b.values))
        return None

    def resolve_name(self, scope, name):
        """scope: Func | Class | Module."""
        s = scope
        while isinstance(s, Func):
            if name in s.nested and name in s.locals:
                return Entity('func', s.nested[name])
            if name in s.locals:
                return Entity('local', (s, name))
            s = s.parent if s.parent is not None else s.module
            # methods do not see class scope
        m = s.module if isinstance(s, Class) else s
        b = m.bindings.get(name)
        if b is not None:
            return self._binding_entity(m, name, b)
        if name in BUILTIN_NAMES:
            return Entity('builtin', name)
        return None

    def resolve_expr(self, scope, expr):
        if isinstance(expr, ast.Name):
            return self.resolve_name(scope, expr.id)
        if isinstance(expr, ast.Attribute):
            base = self.resolve_expr(scope, expr.value)
            if base is None:
                return None
            if base.kind == 'module':
                return self._module_attr(base.obj.name, expr.attr)
            if base.kind == 'class':
                c = base.obj
                for k in self.mro(c):
                    if expr.attr in k.methods:
                        return Entity('func', k.methods[expr.attr])
                    if expr.attr in k.consts:
                        return Entity('classconst', (k, expr.attr, k.consts[expr.attr]))
                return None
            if base.kind == 'extern':
                return Entity('extern', '%s.%s' % (base.obj, expr.attr))
            return None
        return None

    def mro(self, c):
        out, seen, todo = [], set(), [c]
        while todo:
            k = todo.pop(0)
            if k.qualname in seen:
                continue
            seen.add(k.qualname)
            out.append(k)
            for b in k.base_exprs:
                e = self.resolve_expr(k.module, b)
                if e is not None and e.kind == 'class':
                    todo.append(e.obj)
        return out

    def subclasses(self, c):
        return [k for k in self.classes.values() if k is not c and c in self.mro(k)]

    def find_method(self, c, name):
        for k in self.mro(c):
            if name in k.methods:
                return k.methods[name]
        return None

    # ----------------------------------------------------------- constants
    def const_value(self, scope, expr, depth=0):
        """Evaluate a literal-ish expression without importing anything.
        Raises ValueError when not a constant."""
        if depth > 20:
            raise ValueError('too deep')
        if isinstance(expr, ast.Constant):
            return expr.value
        if isinstance(expr, (ast.Tuple, ast.List, ast.Set)):
            vals = [self.const_value(scope, e, depth + 1) for e in expr.elts]
            return tuple(vals) if isinstance(expr, ast.Tuple) else (list(vals) if isinstance(expr, ast.List) else set(vals))
        if isinstance(expr, ast.Dict):
            out = {}
            for k, v in zip(expr.keys, expr.values):
                if k is None:
                    out.update(self.const_value(scope, v, depth + 1))
                else:
                    out[self.const_value(scope, k, depth + 1)] = self.const_value(scope, v, depth + 1)
            return out
        if isinstance(expr, ast.UnaryOp) and isinstance(expr.op, ast.USub):
            return -self.const_value(scope, expr.operand, depth + 1)
        if isinstance(expr, ast.BinOp):
            l = self.const_value(scope, expr.left, depth + 1)
            r = self.const_value(scope, expr.right, depth + 1)
            if isinstance(expr.op, ast.Add):
                return l + r
            if isinstance(expr.op, ast.Sub):
                return l - r
            if isinstance(expr.op, ast.Mult):
                return l * r
            if isinstance(expr.op, ast.Mod):
                return l % r
            if isinstance(expr.op, ast.LShift):
                return l << r
            if isinstance(expr.op, ast.BitOr):
                return l | r
            raise ValueError('binop')
        if isinstance(expr, (ast.Name, ast.Attribute)):
            e = self.resolve_expr(scope, expr)
            if e is None:
                raise ValueError('unresolved %s' % src_of(expr))
            if e.kind == 'classconst':
                k, _, v = e.obj
                return self.const_value(k.module, v, depth + 1)
            if e.kind == 'const':
                m, name, values = e.obj
                if len(values) != 1 or values[0] is None:
                    raise ValueError('not single-assigned: %s' % name)
                return self.const_value(m, values[0], depth + 1)
            raise ValueError('not const: %s' % src_of(expr))
        if isinstance(expr, ast.Call):
            fn = expr.func
            if isinstance(fn, ast.Name) and fn.id in ('dict', 'set', 'list', 'tuple', 'frozenset') \
                    and self.resolve_name(scope, fn.id).kind == 'builtin':
                args = [self.const_value(scope, a, depth + 1) for a in expr.args]
                kw = {k.arg: self.const_value(scope, k.value, depth + 1) for k in expr.keywords}
                return {'dict': dict, 'set': set, 'list': list, 'tuple': tuple, 'frozenset': frozenset}[fn.id](*args, **kw)
            if isinstance(fn, ast.Name) and fn.id in ('chr', 'ord', 'len', 'str') and len(expr.args) == 1 and not expr.keywords \
                    and self.resolve_name(scope, fn.id).kind == 'builtin':
                return {'chr': chr, 'ord': ord, 'len': len, 'str': str}[fn.id](self.const_value(scope, expr.args[0], depth + 1))
            raise ValueError('call')
        raise ValueError('not const: %s' % type(expr).__name__)

    def try_const(self, scope, expr, default=None):
        try:
            return self.const_value(scope, expr)
        except (ValueError, TypeError, KeyError):
            return default

    def module_const(self, modqual, name):
        m = self.module(modqual)
        b = m.bindings.get(name)
        if b is None:
            raise AnalysisError('anchor vanished: %s.%s' % (m.name, name))
        e = self._binding_entity(m, name, b)
        if e.kind != 'const':
            raise AnalysisError('anchor %s.%s is not a module-level constant' % (m.name, name))
        _, _, values = e.obj
        if len(values) != 1 or values[0] is None:
            raise AnalysisError('%s.%s is assigned %d times' % (m.name, name, len(values)))
        return m, values[0]

    # --------------------------------------------------------------- types
    def annotation_type(self, scope, ann):
        if ann is None:
            return None
        if isinstance(ann, ast.Constant) and isinstance(ann.value, str):
            try:
                ann = ast.parse(ann.value, mode='eval').body
            except SyntaxError:
                return None
        e = self.resolve_expr(scope, ann)
        if e is None:
            return None
        if e.kind == 'class':
            return e.obj
        if e.kind == 'builtin':
            return e.obj    # 'str', 'list', 'dict', 'int', 'bool', 'callable', 'tuple'
        return None

    def local_assignments(self, func, name):
        out = []
        nodes = list(func.body_nodes())
        todo = list(func.nested.values())
        while todo:
            g = todo.pop()
            if name in g.nonlocal_decl:
                nodes += list(g.body_nodes())
            if name not in g.locals:
                todo += list(g.nested.values())
        for n in nodes:
            if isinstance(n, ast.Assign):
                for t in n.targets:
                    if isinstance(t, ast.Name) and t.id == name:
                        out.append(n.value)
                    elif isinstance(t, (ast.Tuple, ast.List)) and any(isinstance(x, ast.Name) and x.id == name for x in ast.walk(t)):
                        out.append(None)
            elif isinstance(n, ast.AugAssign) and isinstance(n.target, ast.Name) and n.target.id == name:
                out.append(None)
            elif isinstance(n, (ast.For, ast.comprehension)):
                if any(isinstance(x, ast.Name) and x.id == name for x in ast.walk(n.target)):
                    out.append(None)
            elif isinstance(n, ast.AnnAssign) and isinstance(n.target, ast.Name) and n.target.id == name:
                out.append(n.value)
        return out

    def type_of(self, scope, expr, depth=0):
        """Nominal type: Class | builtin-name str | None."""
        if depth > 8 or expr is None:
            return None
        key = (id(scope), id(expr))
        if key in self._type_busy:
            return None
        self._type_busy.add(key)
        try:
            return self._type_of(scope, expr, depth)
        finally:
            self._type_busy.discard(key)

    def _type_of(self, scope, expr, depth):
        if isinstance(expr, ast.Constant):
            return type(expr.value).__name__ if expr.value is not None else 'None'
        if isinstance(expr, (ast.List, ast.ListComp)):
            return 'list'
        if isinstance(expr, (ast.Dict, ast.DictComp)):
            return 'dict'
        if isinstance(expr, ast.Tuple):
            return 'tuple'
        if isinstance(expr, ast.JoinedStr):
            return 'str'
        if isinstance(expr, ast.Name):
            e = self.resolve_name(scope, expr.id)
            if e is None:
                return None
            if e.kind == 'local':
                f, name = e.obj
                if f.cls is not None and f.params and name == f.params[0] and not f.is_static():
                    return f.cls
                cands = []
                is_param = name in f.all_params()
                if is_param:
                    t = self.annotation_type(f, f.annotations.get(name))
                    if t is None:
                        return None
                    cands.append(t)
                for v in self.local_assignments(f, name):
                    if v is None:
                        if is_param:
                            continue
                        return None
                    t = self.type_of(f, v, depth + 1)
                    if t is None:
                        if is_param:
                            continue    # annotated parameter re-assigned from an unknown: keep annotation
                        return None
                    if t == 'None':
                        continue        # `x = None` initialisation
                    cands.append(t)
                keys = {_tkey(t) for t in cands}
                return cands[0] if len(keys) == 1 else None
            if e.kind == 'const':
                m, name, values = e.obj
                ts = {(_tkey(self.type_of(m, v, depth + 1))) for v in values if v is not None}
                if len(ts) == 1 and len(values) == 1:
                    return self.type_of(m, values[0], depth + 1)
                return None
            if e.kind == 'module':
                return None
            return None
        if isinstance(expr, ast.Attribute):
            t = self.type_of(scope, expr.value, depth + 1)
            if isinstance(t, Class):
                return self.field_type(t, expr.attr)
            return None
        if isinstance(expr, ast.Call):
            tgt = self.resolve_call(scope, expr)
            if isinstance(tgt, Class):
                return tgt
            if isinstance(tgt, list) and len(tgt) == 1:
                f = tgt[0]
                if f.node.returns is not None:
                    t = self.annotation_type(f, f.node.returns)
                    if t is not None:
                        return t
                rts = set()
                last = None
                for n in f.body_nodes():
                    if isinstance(n, ast.Return) and n.value is not None:
                        t = self.type_of(f, n.value, depth + 1)
                        rts.add(_tkey(t))
                        last = t
                if len(rts) == 1 and last is not None:
                    return last
                return None
            if isinstance(tgt, tuple) and tgt[0] == 'builtin':
                return {'str': 'str', 'len': 'int', 'int': 'int', 'float': 'float', 'list': 'list',
                        'dict': 'dict', 'bool': 'bool', 'tuple': 'tuple', 'set': 'set', 'max': None,
                        'min': None}.get(tgt[1])
            return None
        if isinstance(expr, ast.BinOp) and isinstance(expr.op, ast.Mod):
            lt = self.type_of(scope, expr.left, depth + 1)
            if lt == 'str':
                return 'str'
        if isinstance(expr, ast.Compare):
            return 'bool'
        if isinstance(expr, ast.IfExp):
            a = self.type_of(scope, expr.body, depth + 1)
            b = self.type_of(scope, expr.orelse, depth + 1)
            if a is not None and (b is None or _tkey(a) == _tkey(b)):
                return a
            return b if a is None else None
        return None

    def field_type(self, c, attr):
        key = (c.qualname, attr)
        if key in self._field_types_cache:
            return self._field_types_cache[key]
        self._field_types_cache[key] = None
        res = None
        types = {}
        for k in self.mro(c):
            for f in k.methods.values():
                if not f.params:
                    continue
                selfname = f.params[0]
                for n in f.body_nodes():
                    if isinstance(n, ast.Assign):
                        for t in n.targets:
                            if isinstance(t, ast.Attribute) and t.attr == attr and isinstance(t.value, ast.Name) and t.value.id == selfname:
                                ty = self.type_of(f, n.value)
                                types[_tkey(ty)] = ty
        # external stores `x.attr = Ctor()` where x: c  (e.g. state.comment = CommentWalkState(config))
        if not types or set(types) == {None}:
            for f in self.funcs.values():
                for n in f.body_nodes():
                    if isinstance(n, ast.Assign):
                        for t in n.targets:
                            if isinstance(t, ast.Attribute) and t.attr == attr and isinstance(n.value, ast.Call):
                                rt = self.type_of(f, t.value)
                                if isinstance(rt, Class) and (rt is c or c in self.mro(rt) or rt in self.mro(c)):
                                    ty = self.type_of(f, n.value)
                                    if ty is not None:
                                        types[_tkey(ty)] = ty
        types.pop(None, None)
        types.pop('None', None)
        if len(types) == 1:
            res = list(types.values())[0]
        self._field_types_cache[key] = res
        return res

    # --------------------------------------------------------------- calls
    def method_index(self):
        if self._method_index is None:
            idx = {}
            for c in self.classes.values():
                for name, f in c.methods.items():
                    idx.setdefault(name, []).append(f)
            self._method_index = idx
        return self._method_index

    def resolve_call(self, scope, call):
        """-> Class (constructor) | [Func, ...] | ('builtin', name) |
        ('builtin-method', name) | ('callback', name) | ('extern', dotted) | None"""
        fn = call.func
        if isinstance(fn, ast.Name):
            e = self.resolve_name(scope, fn.id)
            if e is None:
                return None
            if e.kind == 'func':
                return [e.obj]
            if e.kind == 'class':
                return e.obj
            if e.kind == 'builtin':
                return ('builtin', e.obj)
            if e.kind == 'extern':
                return ('extern', e.obj)
            if e.kind == 'local':
                f, name = e.obj
                # local bound only to function references?
                vals = self.local_assignments(f, name)
                if name not in f.all_params() and vals and all(v is not None for v in vals):
                    outs = []
                    for v in vals:
                        ee = self.resolve_expr(f, v) if isinstance(v, (ast.Name, ast.Attribute)) else None
                        if ee is not None and ee.kind == 'func':
                            outs.append(ee.obj)
                        elif isinstance(v, ast.IfExp):
                            for alt in (v.body, v.orelse):
                                e2 = self.resolve_expr(f, alt) if isinstance(alt, (ast.Name, ast.Attribute)) else None
                                if e2 is not None and e2.kind == 'func':
                                    outs.append(e2.obj)
                                else:
                                    return ('callback', name)
                        else:
                            return ('callback', name)
                    return outs
                return ('callback', name)
            if e.kind == 'const':
                return ('callback', fn.id)
            return None
        if isinstance(fn, ast.Attribute):
            e = self.resolve_expr(scope, fn)
            if e is not None:
                if e.kind == 'func':
                    return [e.obj]
                if e.kind == 'class':
                    return e.obj
                if e.kind == 'extern':
                    return ('extern', e.obj)
            # super(X, self).__init__
            if isinstance(fn.value, ast.Call) and isinstance(fn.value.func, ast.Name) and fn.value.func.id == 'super':
                f = scope
                while isinstance(f, Func) and f.cls is None:
                    f = f.parent
                if isinstance(f, Func) and f.cls is not None:
                    for k in self.mro(f.cls)[1:]:
                        if fn.attr in k.methods:
                            return [k.methods[fn.attr]]
                return ('builtin-method', fn.attr)
            t = self.type_of(scope, fn.value)
            if isinstance(t, Class):
                m = self.find_method(t, fn.attr)
                if m is not None:
                    # include overrides in subclasses
                    outs = [m]
                    for k in self.subclasses(t):
                        if fn.attr in k.methods and k.methods[fn.attr] not in outs:
                            outs.append(k.methods[fn.attr])
                    return outs
                return None
            if isinstance(t, str):
                return ('builtin-method', fn.attr)
            cands = self.method_index().get(fn.attr)
            if cands and fn.attr not in BUILTIN_METHODS:
                return list(cands) + [('by-name',)] if False else list(cands)
            if fn.attr in BUILTIN_METHODS:
                return ('builtin-method', fn.attr)
            return None
        return None


BUILTIN_METHODS = {
    'append', 'extend', 'insert', 'pop', 'remove', 'clear', 'sort', 'reverse', 'update', 'setdefault',
    'add', 'discard', 'popitem', 'get', 'keys', 'values', 'items', 'copy', 'join', 'split', 'strip',
    'lstrip', 'rstrip', 'lower', 'upper', 'startswith', 'endswith', 'find', 'index', 'count', 'replace',
    'format', 'isdecimal', 'isdigit', 'capitalize', 'splitlines', 'match', 'group', 'start', 'end',
    'sub', 'search', 'finditer', 'rjust', 'ljust', 'zfill', 'encode', 'isalpha', 'isspace', 'title',
}


def _tkey(t):
    if isinstance(t, Class):
        return t.qualname
    return t


def _one(types, first):
    return first if len(types) == 1 else None


def _is_static(self):
    return any(isinstance(d, ast.Name) and d.id in ('staticmethod', 'classmethod') for d in self.node.decorator_list)


Func.is_static = _is_static


# ------------------------------------------------------------------ helpers
def walk_stmts(body):
    """Yield every statement in `body` recursively (not into nested defs)."""
    for st in body:
        yield st
        if isinstance(st, (ast.FunctionDef, ast.ClassDef, ast.AsyncFunctionDef)):
            continue
        for field in ('body', 'orelse', 'finalbody'):
            sub = getattr(st, field, None)
            if sub:
                yield from walk_stmts(sub)
        if isinstance(st, ast.Try):
            for h in st.handlers:
                yield from walk_stmts(h.body)


def parent_map(root):
    pm = {}
    for p in ast.walk(root):
        for c in ast.iter_child_nodes(p):
            pm[c] = p
    return pm


def loc(module_or_func, node):
    m = module_or_func.module if isinstance(module_or_func, (Func, Class)) else module_or_func
    return '%s:%d' % (m.relpath, getattr(node, 'lineno', 0))
