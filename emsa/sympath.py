"""Symbolic path summaries of small decision/formatting functions.

For a loop-free function (loops are summarised by havocking what they assign)
every path is enumerated; local variables are substituted by the expressions
they hold, so the result of a path is an expression over the *inputs* of the
function (parameters, fields of parameters, results of impure calls).  Impure
calls are replaced by numbered symbols `_cN` and recorded, with the path
condition under which they happen, as events.  Nothing is executed and no
solver is involved: the only reasoning is substitution, splitting on tests and
dropping paths that assume one atom both true and false.

Rules compare these summaries (in a normal form: linear arithmetic, sets of
conjuncts) instead of the text of the function, which makes them insensitive
to renamed locals, hoisted sub-expressions, if/else vs conditional expressions,
guard clauses and extracted helpers (helpers are inlined by norm.py first).
"""
import ast
import copy

from .core import AnalysisError, src_of

STALE = '\u2020'          # marks an assumed test whose operands may have changed since (never part of source text)

PURE_FUNCS = {'len', 'str', 'int', 'float', 'max', 'min', 'abs', 'isinstance', 'bool', 'chr', 'ord', 'round', 'repr', 'tuple', 'list', 'dict',
              'set', 'sorted', 'reversed', 'hasattr', 'getattr', 'range', 'enumerate', 'zip', 'any', 'all', 'sum', 'type', 'hex', 'callable', 'divmod',
              'filter', 'map'}
PURE_METHODS = {'get', 'lower', 'upper', 'startswith', 'endswith', 'join', 'strip', 'lstrip', 'rstrip', 'split', 'rjust', 'ljust', 'zfill', 'find',
                'index', 'count', 'replace', 'format', 'keys', 'values', 'items', 'isdigit', 'isalpha', 'group', 'title', 'center', 'splitlines'}


def reads_heap(val, stable=()):
    """does the expression read an attribute / element that a later call or store could change?  (`_cN[k]`, the k-th
    component of a tuple a call returned, is a destructuring, not a heap read; `opts['key']` on a table the function never
    writes is an option read: option tables are not written after they were built - OWN-CALLER / OWN-DEFAULT)"""
    for n in ast.walk(val):
        if isinstance(n, ast.Attribute):
            return True
        if isinstance(n, ast.Call) and isinstance(n.func, ast.Name) and n.func.id not in PURE_FUNCS and not n.func.id[:1].isupper() \
                and any(not isinstance(a, ast.Constant) for a in n.args):
            return True             # an effect-free project function kept as an expression: it reads whatever its arguments reach
        if isinstance(n, ast.Subscript):
            if isinstance(n.value, ast.Name) and n.value.id.startswith('_c') and isinstance(n.slice, ast.Constant):
                continue            # component of a returned tuple, or a constant key of a returned option table
            if isinstance(n.slice, ast.Constant) and isinstance(n.slice.value, str) and \
                    ((isinstance(n.value, ast.Name) and n.value.id in stable) or isinstance(n.value, ast.Call)):
                continue
            return True
    return False


def _stable_tables(node):
    """names of dicts that this function only reads by constant string key (never stores into / mutates by method)"""
    read, written = set(), set()
    for n in ast.walk(node):
        if isinstance(n, ast.Subscript) and isinstance(n.value, ast.Name) and isinstance(n.slice, ast.Constant) and isinstance(n.slice.value, str):
            (written if isinstance(n.ctx, (ast.Store, ast.Del)) else read).add(n.value.id)
        if isinstance(n, ast.Call) and isinstance(n.func, ast.Attribute) and isinstance(n.func.value, ast.Name) and n.func.attr in ('update', 'pop', 'clear', 'setdefault', 'popitem', '__setitem__'):
            written.add(n.func.value.id)
    return read - written


class Unsupported(Exception):
    pass


class Path:
    __slots__ = ('conds', 'env', 'events', 'ret', 'raised', 'stores', 'snaps', 'exit', 'ctime')

    def __init__(self, conds=(), env=None, events=(), stores=()):
        self.conds, self.env, self.events, self.stores = conds, env or {}, events, stores
        self.ret = None
        self.raised = None
        self.snaps = {}
        self.exit = 'end'
        self.ctime = {}

    def fork(self):
        q = Path(self.conds, dict(self.env), self.events, self.stores)
        q.ctime = dict(self.ctime)
        return q

    def cond(self, src):
        """truth assumed for atom `src` on this path: True / False / None"""
        for s, pol in self.conds:
            if s == src:
                return pol
        return None

    def resolve(self, expr, depth=8, objects=True):
        """expression with snapshot symbols replaced by what they froze and call symbols by the calls they stand for: a
        canonical spelling over the inputs of the function, for recognising roles (it forgets evaluation time and
        sharing, so use it to identify *what* flows somewhere, not *when* it was computed)"""
        calls = {sym: n for sym, n, _ in self.events if sym.startswith('_c')}
        snaps = dict(self.snaps)
        for sym, n, _ in self.events:
            if sym == '@new':
                snaps[n.targets[0].id] = (None, n.value, 0)        # objects are numbered per path: their displays live in the path's own events

        class R(ast.NodeTransformer):
            def __init__(self, d):
                self.d = d

            def visit_Name(self, node):
                if not objects and node.id.startswith('_o') and node.id[2:].isdigit():
                    return node
                if self.d > 0 and node.id in snaps:
                    return R(self.d - 1).visit(copy.deepcopy(snaps[node.id][1]))
                if self.d > 0 and node.id in calls:
                    return R(self.d - 1).visit(copy.deepcopy(calls[node.id]))
                return node
        return R(depth).visit(copy.deepcopy(expr))

    def rsrc(self, expr):
        return src_of(self.resolve(expr))

    def rconds(self, conds=None):
        """{resolved atom source: truth}"""
        out = {}
        for s, pol in (self.conds if conds is None else conds):
            try:
                out[self.rsrc(ast.parse(s.split(STALE)[0], mode='eval').body)] = pol
            except SyntaxError:
                out[s] = pol
        return out

    def calls(self, *names):
        """[(sym, call node, conds)] of the call events whose callee's last name is in `names`, in execution order"""
        out = []
        for sym, n, conds in self.events:
            if isinstance(n, ast.Call):
                fn = n.func
                nm = fn.attr if isinstance(fn, ast.Attribute) else (fn.id if isinstance(fn, ast.Name) else None)
                if nm in names:
                    out.append((sym, n, conds))
        return out

    def cond_map(self, unsnap_with=None):
        """{atom source (without staleness mark): truth}"""
        out = {}
        for s, pol in self.conds:
            s = s.split(STALE)[0]
            if unsnap_with is not None:
                try:
                    s = src_of(unsnap(ast.parse(s, mode='eval').body, unsnap_with))
                except SyntaxError:
                    pass
            out[s] = pol
        return out

    def cond_str(self):
        return ' and '.join(('%s' if pol else 'not (%s)') % s for s, pol in self.conds) or 'always'


class _Expand(ast.NodeTransformer):
    def __init__(self, sp, path):
        self.sp, self.path = sp, path

    def visit_Name(self, node):
        if isinstance(node.ctx, ast.Load) and node.id in self.path.env:
            return copy.deepcopy(self.path.env[node.id])
        return node

    def visit_Lambda(self, node):
        return node

    def _comp(self, node):
        # the body of a comprehension / generator runs once per element (or never): its calls are not events of this path; only
        # the names bound outside are substituted (the comprehension's own variables shadow them)
        own = {x.id for g in node.generators for x in ast.walk(g.target) if isinstance(x, ast.Name)}
        path = self.path

        class Q(ast.NodeTransformer):
            def visit_Name(self_, n):
                if isinstance(n.ctx, ast.Load) and n.id in path.env and n.id not in own:
                    return copy.deepcopy(path.env[n.id])
                return n

            def visit_Lambda(self_, n):
                return n
        return Q().visit(node)

    def visit_ListComp(self, node):
        return self._comp(node)

    def visit_SetComp(self, node):
        return self._comp(node)

    def visit_DictComp(self, node):
        return self._comp(node)

    def visit_GeneratorExp(self, node):
        return self._comp(node)

    def visit_Call(self, node):
        self.generic_visit(node)
        if self.sp.is_pure_call(node):
            return node
        self.sp.ncall += 1
        sym = '_c%d' % self.sp.ncall
        self.path.events = self.path.events + ((sym, node, self.path.conds),)
        return ast.Name(id=sym, ctx=ast.Load())


class SymPaths:
    def __init__(self, project, func, node=None, pure=(), max_paths=400, unroll=False):
        self.p, self.f = project, func
        self.node = node if node is not None else func.node
        self.extra_pure = set(pure)
        self.max_paths = max_paths
        self.ncall = 0
        self.nhavoc = 0
        self.nfreeze = 0
        self.pure_project = False
        self.named_constants = False
        self.nobj0 = 0
        self.stable = _stable_tables(func.node)
        self.nloop = 0
        self.unroll = unroll
        self.snaps = {}
        self.rebound = set()
        for n in ast.walk(self.node):
            if isinstance(n, ast.Nonlocal):
                self.rebound.update(n.names)

    # ------------------------------------------------------------ purity
    def is_pure_call(self, call):
        fn = call.func
        if isinstance(fn, ast.Name):
            if fn.id in self.extra_pure:
                return True
            if fn.id in PURE_FUNCS and self.p.resolve_name(self.f, fn.id) is not None and self.p.resolve_name(self.f, fn.id).kind == 'builtin':
                return True
            if fn.id in PURE_FUNCS and self.p.resolve_name(self.f, fn.id) is None:
                return True
            return False
        if isinstance(fn, ast.Attribute):
            if fn.attr in self.extra_pure:
                return True
            return fn.attr in PURE_METHODS
        return False

    # ------------------------------------------------------------- driver
    def run(self):
        done = []
        paths = self.block(self.node.body, [Path()], done)
        for q in paths:
            q.ret = None
            done.append(q)
        return done

    def expand(self, expr, path):
        return _Expand(self, path).visit(copy.deepcopy(expr))

    def cond(self, test, path):
        """evaluate a test lazily (operands of and/or/not and conditional expressions in evaluation order, so calls that are
        short-circuited are not recorded)  -> (paths where it is true, paths where it is false)"""
        if isinstance(test, ast.UnaryOp) and isinstance(test.op, ast.Not):
            t, f = self.cond(test.operand, path)
            return f, t
        if isinstance(test, ast.BoolOp):
            is_and = isinstance(test.op, ast.And)
            cur, done_ = [path], []
            for v in test.values:
                nxt = []
                for q in cur:
                    t, f = self.cond(v, q)
                    if is_and:
                        nxt += t
                        done_ += f
                    else:
                        nxt += f
                        done_ += t
                cur = nxt
                if len(cur) + len(done_) > self.max_paths:
                    raise Unsupported('test splits into more than %d cases' % self.max_paths)
            return (cur, done_) if is_and else (done_, cur)
        if isinstance(test, ast.IfExp):
            t, f = self.cond(test.test, path)
            T, Fa = [], []
            for q in t:
                a, b = self.cond(test.body, q)
                T += a
                Fa += b
            for q in f:
                a, b = self.cond(test.orelse, q)
                T += a
                Fa += b
            return T, Fa
        T, Fa = [], []
        for q, v in self.ev(test, path):
            a, b = self.split(v, q)
            T += a
            Fa += b
        return T, Fa

    def split(self, test, path):
        """-> (paths where test is true, paths where it is false); test is an already evaluated (expanded) expression"""
        if isinstance(test, ast.UnaryOp) and isinstance(test.op, ast.Not):
            t, f = self.split(test.operand, path)
            return f, t
        if isinstance(test, ast.BoolOp):
            if isinstance(test.op, ast.And):
                cur, false = [path], []
                for v in test.values:
                    nxt = []
                    for q in cur:
                        t, f = self.split(v, q)
                        nxt += t
                        false += f
                    cur = nxt
                return cur, false
            cur, true = [path], []
            for v in test.values:
                nxt = []
                for q in cur:
                    t, f = self.split(v, q)
                    true += t
                    nxt += f
                cur = nxt
            return true, cur
        if isinstance(test, ast.Constant):
            return ([path], []) if test.value else ([], [path])
        if isinstance(test, (ast.List, ast.Tuple, ast.Set)) and not any(isinstance(x, ast.Starred) for x in test.elts):
            return ([path], []) if test.elts else ([], [path])          # a display is truthy exactly when it has elements
        if isinstance(test, ast.Dict) and all(k is not None for k in test.keys):
            return ([path], []) if test.keys else ([], [path])
        if isinstance(test, ast.Name) and test.id.startswith('_o') and test.id[2:].isdigit() and self._pristine(path, test.id):
            disp = next(n.value for s_, n, _ in path.events if s_ == '@new' and n.targets[0].id == test.id)
            if isinstance(disp, (ast.List, ast.Set)) and not any(isinstance(x, ast.Starred) for x in disp.elts):
                return ([path], []) if disp.elts else ([], [path])
            if isinstance(disp, ast.Dict) and all(k is not None for k in disp.keys):
                return ([path], []) if disp.keys else ([], [path])
        if isinstance(test, ast.Name) and test.id not in path.env:
            cv = self.p.try_const(self.f, test) if test.id not in self.f.locals else None
            if isinstance(cv, (list, tuple, dict, str, int)) and not isinstance(cv, bool) and cv:
                return [path], []
            ent = self.p.resolve_name(self.f, test.id) if test.id not in self.f.locals else None
            if ent is not None and ent.kind == 'const':
                vals = ent.obj[2]
                if len(vals) == 1 and isinstance(vals[0], (ast.List, ast.Tuple)) and vals[0].elts:
                    return [path], []               # module-level constant bound once to a non-empty display
        if isinstance(test, ast.IfExp):
            t, f = self.split(test.test, path)
            T, Fa = [], []
            for q in t:
                a, b = self.split(test.body, q)
                T += a
                Fa += b
            for q in f:
                a, b = self.split(test.orelse, q)
                T += a
                Fa += b
            return T, Fa
        if isinstance(test, ast.Compare) and len(test.ops) == 1 and isinstance(test.left, ast.Constant) and isinstance(test.comparators[0], ast.Constant):
            a_, b_ = test.left.value, test.comparators[0].value
            try:
                v = {ast.Eq: lambda: a_ == b_, ast.NotEq: lambda: a_ != b_, ast.Lt: lambda: a_ < b_, ast.LtE: lambda: a_ <= b_, ast.Gt: lambda: a_ > b_,
                     ast.GtE: lambda: a_ >= b_, ast.Is: lambda: a_ is b_, ast.IsNot: lambda: a_ is not b_}[type(test.ops[0])]()
                return ([path], []) if v else ([], [path])
            except (KeyError, TypeError):
                pass
        src = src_of(test)
        known = path.cond(src)
        if known is True:
            return [path], []
        if known is False:
            return [], [path]
        a, b = path.fork(), path.fork()
        a.conds = path.conds + ((src, True),)
        b.conds = path.conds + ((src, False),)
        a.ctime[src] = b.ctime[src] = len(path.events)
        return [a], [b]

    def value_paths(self, expr, path):
        """evaluate `expr` symbolically; conditional expressions and and/or in value position split the path, sub-expressions
        are visited in evaluation order (so call events are recorded in the order they happen)  -> [(path, value ast)]"""
        out = self.ev(expr, path)
        if len(out) > self.max_paths:
            raise Unsupported('expression %s splits into more than %d cases' % (src_of(expr)[:60], self.max_paths))
        return out

    def ev(self, e, path):
        if isinstance(e, ast.UnaryOp) and isinstance(e.op, ast.Not):
            # `not x` in value position is the boolean True / False, decided by the truth of x
            t, f = self.cond(e.operand, path)
            return [(q, ast.Constant(value=False)) for q in t] + [(q, ast.Constant(value=True)) for q in f]
        if isinstance(e, ast.IfExp):
            t, f = self.cond(e.test, path)
            out = []
            for q in t:
                out += self.ev(e.body, q)
            for q in f:
                out += self.ev(e.orelse, q)
            return out
        if isinstance(e, ast.BoolOp):
            is_or = isinstance(e.op, ast.Or)
            out = []
            cur = [path]
            for i, v in enumerate(e.values):
                nxt = []
                for q in cur:
                    for q2, x in self.ev(v, q):
                        if i == len(e.values) - 1:
                            out.append((q2, x))
                            continue
                        t, f = self.split(x, q2)
                        for q3 in (t if is_or else f):
                            out.append((q3, x))             # short-circuit: this operand is the value
                        nxt += (f if is_or else t)
                cur = nxt
            return out
        if self.named_constants and isinstance(e, ast.Attribute) and ((isinstance(e.value, ast.Name) and e.value.id not in path.env) or (
                isinstance(e.value, ast.Attribute) and isinstance(e.value.value, ast.Name) and e.value.value.id not in path.env)):
            c = self._class_constant(e)
            if c is not None:
                return [(path, c)]
        if isinstance(e, ast.Name):
            if isinstance(e.ctx, ast.Load) and e.id in path.env:
                return [(path, copy.deepcopy(path.env[e.id]))]
            c = self._named_constant(e.id) if self.named_constants else None
            if c is not None:
                return [(path, c)]
            return [(path, e)]
        if isinstance(e, (ast.Constant, ast.Lambda, ast.ListComp, ast.GeneratorExp, ast.DictComp, ast.SetComp, ast.JoinedStr)):
            return [(path, self.expand(e, path))]
        if isinstance(e, ast.Call):
            parts = []
            if isinstance(e.func, ast.Attribute):
                parts.append(e.func.value)
            parts += list(e.args) + [k.value for k in e.keywords]
            out = []
            for q, vals in self._seq(parts, path):
                n = copy.copy(e)
                vals = list(vals)
                if isinstance(e.func, ast.Attribute):
                    n.func = ast.Attribute(value=vals.pop(0), attr=e.func.attr, ctx=ast.Load())
                else:
                    n.func = self.expand(e.func, q) if not isinstance(e.func, ast.Name) else (copy.deepcopy(q.env[e.func.id]) if e.func.id in q.env else e.func)
                n.args = vals[:len(e.args)]
                n.keywords = [ast.keyword(arg=k.arg, value=v) for k, v in zip(e.keywords, vals[len(e.args):])]
                if self.is_pure_call(n) or (self.pure_project and self._effect_free(e)):
                    out.append((q, n))
                else:
                    self.ncall += 1
                    sym = '_c%d' % self.ncall
                    q.events = q.events + ((sym, n, q.conds),)
                    out.append((q, ast.Name(id=sym, ctx=ast.Load())))
            return out
        # generic node: children in evaluation order
        fields = []
        for name in e._fields:
            v = getattr(e, name, None)
            if isinstance(v, ast.expr):
                fields.append((name, None, v))
            elif isinstance(v, list):
                for i, x in enumerate(v):
                    if isinstance(x, ast.expr):
                        fields.append((name, i, x))
        if not fields:
            return [(path, e)]
        out = []
        for q, vals in self._seq([x for _, _, x in fields], path):
            n = copy.copy(e)
            for name in e._fields:
                if isinstance(getattr(e, name, None), list):
                    setattr(n, name, list(getattr(e, name)))
            for (name, i, _), v in zip(fields, vals):
                if i is None:
                    setattr(n, name, v)
                else:
                    getattr(n, name)[i] = v
            out.append((q, n))
        return out

    def _effect_free(self, call):
        """the (unexpanded) call resolves to project functions that the effect analysis shows to be effect-free"""
        from . import purity
        try:
            tgt = self.p.resolve_call(self.f, call)
        except Exception:
            return False
        if isinstance(tgt, list) and tgt:
            pure = purity.pure_functions(self.p)
            return all(g.qualname in pure for g in tgt)
        return False

    def _pristine(self, path, sym):
        """no call received / no store went into the object since it was created on this path"""
        seen = False
        for s_, n, _ in path.events:
            if s_ == '@new' and n.targets[0].id == sym:
                seen = True
                continue
            if seen and s_ != '@new' and any(isinstance(x, ast.Name) and x.id == sym for x in ast.walk(n)):
                return False
        return seen

    def _class_constant(self, e):
        """<Class>.<NAME> where the class body binds NAME once to a number / string (the project's constant tables: Chars, Brackets,
        ElementType, TokenType ...) is spelled out: renaming a constant or comparing with the literal changes nothing, and two
        different constants are visibly different values"""
        qualified = isinstance(e.value, ast.Attribute)         # <module>.<Class>.<NAME>
        name = e.value.value.id if qualified else e.value.id
        if name in self.f.locals or name in self.f.params:
            return None
        key = (src_of(e.value), e.attr)
        cache = self.__dict__.setdefault('_cc_cache', {})
        if key in cache:
            return copy.deepcopy(cache[key])
        out = None
        ent = self.p.resolve_expr(self.f, e.value) if qualified else self.p.resolve_name(self.f, name)
        if ent is not None and ent.kind == 'class':
            cls = ent.obj
            vals = [st.value for st in cls.node.body if isinstance(st, ast.Assign) and any(isinstance(t, ast.Name) and t.id == e.attr for t in st.targets)]
            vals += [st.value for st in cls.node.body if isinstance(st, ast.AnnAssign) and isinstance(st.target, ast.Name) and st.target.id == e.attr and st.value is not None]
            if len(vals) == 1 and isinstance(vals[0], ast.Constant) and isinstance(vals[0].value, (int, str)) and not isinstance(vals[0].value, bool) \
                    and not any(isinstance(b, (ast.Name, ast.Attribute)) and 'Enum' in src_of(b) for b in cls.node.bases):
                out = ast.Constant(value=vals[0].value)
        cache[key] = out
        return copy.deepcopy(out)

    def _named_constant(self, name, depth=0):
        """a module-level name bound once to a number / string or to an arithmetic / bit combination of class constants
        (ParserState.A | ParserState.B) is spelled out, so naming a constant changes nothing"""
        if name in self.f.locals or depth > 3:
            return None
        ent = self.p.resolve_name(self.f, name)
        if ent is None or ent.kind != 'const':
            return None
        vals = ent.obj[2]
        if len(vals) != 1 or vals[0] is None:
            return None
        v = vals[0]
        if isinstance(v, ast.Constant) and isinstance(v.value, (int, float, str)) and not isinstance(v.value, bool):
            return copy.deepcopy(v)
        if isinstance(v, ast.UnaryOp) and isinstance(v.operand, ast.Constant):
            return copy.deepcopy(v)
        if isinstance(v, ast.BinOp) and all(isinstance(n, (ast.BinOp, ast.Attribute, ast.Name, ast.Constant, ast.operator, ast.expr_context)) for n in ast.walk(v)):
            m = ent.obj[0]
            out = copy.deepcopy(v)

            class S(ast.NodeTransformer):
                def visit_Name(s_, node):
                    if node.id == name:
                        return node
                    sub = self._named_constant(node.id, depth + 1)
                    return sub if sub is not None else node
            return S().visit(out)
        return None

    def _seq(self, exprs, path):
        """evaluate expressions left to right -> [(path, [values])]"""
        cur = [(path, [])]
        for x in exprs:
            nxt = []
            for q, vals in cur:
                rs = self.ev(x, q)
                for k, (q2, v) in enumerate(rs):
                    if len(rs) > 1:
                        q2 = q2 if q2 is not q else q2
                    nxt.append((q2, vals + [v]))
            cur = nxt
            if len(cur) > self.max_paths:
                raise Unsupported('expression splits into more than %d cases' % self.max_paths)
        return cur

    def assign(self, target, value, path):
        if isinstance(target, ast.Name):
            fresh_copy = (isinstance(value, ast.Subscript) and isinstance(value.slice, ast.Slice) and value.slice.lower is None and value.slice.upper is None and value.slice.step is None) \
                or (isinstance(value, ast.Call) and isinstance(value.func, ast.Name) and value.func.id in ('list', 'dict', 'set', 'sorted') and value.args) \
                or (isinstance(value, ast.Call) and isinstance(value.func, ast.Attribute) and value.func.attr == 'copy' and not value.args)
            if isinstance(value, (ast.List, ast.Dict, ast.Set, ast.ListComp, ast.DictComp, ast.SetComp)) or (fresh_copy and self.named_constants):
                # a fresh mutable object: bound to an object symbol (its contents may change through later calls, so its
                # truthiness / length are never folded); the display it was created from is kept for resolve()
                k = sum(1 for e in path.events if e[0] == '@new') + 1 + self.nobj0
                sym = '_o%d' % k
                path.events = path.events + (('@new', ast.Assign(targets=[ast.Name(id=sym, ctx=ast.Store())], value=value), path.conds),)
                value = ast.Name(id=sym, ctx=ast.Load())
            path.env[target.id] = value
            if target.id in self.f.nonlocal_decl or target.id in getattr(self.f, 'globals_decl', ()):
                # rebinding a variable of the enclosing function / module is visible outside: recorded as a store to `_closure_.<name>`
                tgt = ast.Attribute(value=ast.Name(id='_closure_', ctx=ast.Load()), attr=target.id, ctx=ast.Store())
                path.stores = path.stores + ((tgt, value, path.conds),)
                path.events = path.events + (('=', ast.Assign(targets=[tgt], value=value), path.conds),)
        elif isinstance(target, (ast.Tuple, ast.List)) and isinstance(value, (ast.Tuple, ast.List)) and len(value.elts) == len(target.elts):
            for t, v in zip(target.elts, value.elts):
                self.assign(t, v, path)
        elif isinstance(target, (ast.Tuple, ast.List)):
            for i, t in enumerate(target.elts):
                self.assign(t, ast.Subscript(value=value, slice=ast.Constant(value=i), ctx=ast.Load()), path)
        else:
            tgt = self.expand_target(target, path)
            self.freeze_store(path, tgt)
            path.stores = path.stores + ((tgt, value, path.conds),)
            path.events = path.events + (('=', ast.Assign(targets=[tgt], value=value), path.conds),)

    def freeze_store(self, path, tgt):
        """a store to <obj>.f (or <obj>[i]) changes what later reads of any `.f` (any subscript of that object) see: bindings
        and assumed tests that read it are frozen / made stale first (field-name granularity, so aliases are covered)"""
        troot = tgt
        while isinstance(troot, (ast.Attribute, ast.Subscript)):
            troot = troot.value
        troot = src_of(troot)

        def reads(e):
            for n in ast.walk(e):
                if isinstance(n, ast.Call) and not (isinstance(n.func, ast.Name) and n.func.id in PURE_FUNCS):
                    # a (pure) call reads whatever its receiver and arguments can reach
                    if any(isinstance(x, ast.Name) and x.id == troot for x in ast.walk(n)):
                        return True
                if isinstance(tgt, ast.Attribute) and isinstance(n, ast.Attribute) and n.attr == tgt.attr:
                    return True
                if isinstance(tgt, ast.Subscript) and isinstance(n, ast.Subscript) and src_of(n.value) == src_of(tgt.value):
                    return True
                if isinstance(tgt, ast.Subscript) and isinstance(n, (ast.Name, ast.Attribute)) and src_of(n) == src_of(tgt.value) and not isinstance(n.ctx, ast.Store):
                    return True
            return False
        hit = [name for name, val in path.env.items() if reads(val)]
        stale = []
        for src, pol in path.conds:
            if STALE in src:
                continue
            try:
                if reads(ast.parse(src, mode='eval').body):
                    stale.append(src)
            except SyntaxError:
                stale.append(src)
        if not hit and not stale:
            return
        self.nfreeze += 1
        for name in hit:
            sym = '_s%d_%s' % (self.nfreeze, name)
            self.snaps[sym] = (name, path.env[name], len(path.events))
            path.env[name] = ast.Name(id=sym, ctx=ast.Load())
        path.conds = tuple((('%s%s%d' % (src, STALE, self.nfreeze)) if src in stale else src, pol) for src, pol in path.conds)

    def expand_target(self, target, path):
        t = copy.deepcopy(target)
        if isinstance(t, ast.Attribute):
            t.value = self.expand(t.value, path)
        elif isinstance(t, ast.Subscript):
            t.value = self.expand(t.value, path)
            t.slice = self.expand(t.slice, path)
        return t

    def unroll_for(self, st, path, done):
        """first and second iteration of a for loop, symbolically: the loop variable is a fresh element symbol `_e<k>_<name>`
        (an enumerate() index is the constant 0 / 1), events of iteration k sit between the markers ('_iter<k>', loop) and
        the next marker.  After the second iteration the loop-carried variables are compared with their values after the
        first: if they are equal every later iteration starts in the same state as the second one (marker '_stable'),
        otherwise '_unstable'.  Then everything the loop assigns is havocked."""
        self.nloop += 1
        tag = self.nloop
        it = self.expand(st.iter, path)
        enum = isinstance(it, ast.Call) and isinstance(it.func, ast.Name) and it.func.id == 'enumerate' and isinstance(st.target, ast.Tuple) and len(st.target.elts) == 2
        carried = set()
        for n in ast.walk(ast.Module(body=st.body, type_ignores=[])):
            if isinstance(n, ast.Name) and isinstance(n.ctx, ast.Store):
                carried.add(n.id)
        cur = [path]
        snaps = {}
        for k in (0, 1):
            nxt = []
            for q in cur:
                q.events = q.events + (('_iter%d' % k, st, q.conds),)
                if enum:
                    self.assign(st.target.elts[0], ast.Constant(value=k), q)
                    self.assign(st.target.elts[1], ast.Name(id='_e%d_%d' % (k, tag), ctx=ast.Load()), q)
                else:
                    self.assign(st.target, ast.Name(id='_e%d_%d' % (k, tag), ctx=ast.Load()), q)
                body_done = []
                outs = self.block(st.body, [q], body_done)
                for b in body_done:
                    if b.exit == 'continue':
                        b.exit = 'end'
                        outs.append(b)
                    elif b.exit == 'break':
                        b.exit = 'end'
                        b.events = b.events + (('_broke', st, b.conds),)
                        outs.append(b)
                    else:
                        done.append(b)
                for o in outs:
                    key = tuple(sorted((n, src_of(o.env[n])) for n in carried if n in o.env and not isinstance(st.target, ast.Name) or (n in o.env and n not in [t.id for t in ast.walk(st.target) if isinstance(t, ast.Name)])))
                    if k == 0:
                        o.events = o.events + (('@carry', ast.Constant(value=repr(key)), o.conds),)
                    else:
                        prev = [e for e in o.events if e[0] == '@carry']
                        stable = bool(prev) and prev[-1][1].value == repr(key)
                        o.events = o.events + (('_stable' if stable else '_unstable', st, o.conds),)
                nxt += outs
            cur = [o for o in nxt if not any(e[0] == '_broke' for e in o.events)] if k == 0 else nxt
            broke = [o for o in nxt if any(e[0] == '_broke' for e in o.events)] if k == 0 else []
            if len(cur) + len(broke) > self.max_paths:
                raise Unsupported('loop unrolling splits into too many paths')
            if k == 0:
                first_broke = broke
        out = cur + first_broke
        for q in out:
            self.havoc(st, q)
        return out

    def havoc(self, stmt, path):
        self.nhavoc += 1
        # a loop / try block may call and store anything: freeze what reads the heap, make heap tests stale
        self.nfreeze += 1
        for name, val in list(path.env.items()):
            if reads_heap(val, self.stable):
                sym = '_s%d_%s' % (self.nfreeze, name)
                self.snaps[sym] = (name, val, len(path.events))
                path.env[name] = ast.Name(id=sym, ctx=ast.Load())
        path.conds = tuple((('%s%s%d' % (src, STALE, self.nfreeze)) if STALE not in src and self._stale(src, set()) else src, pol) for src, pol in path.conds)
        for n in ast.walk(stmt):
            if isinstance(n, ast.Name) and isinstance(n.ctx, ast.Store):
                path.env[n.id] = ast.Name(id='_h%d_%s' % (self.nhavoc, n.id), ctx=ast.Load())
        path.events = path.events + (('_loop%d' % self.nhavoc, stmt, path.conds),)

    # ------------------------------------------------------------ freezing
    def _impure_roots(self, exprs):
        """root names mentioned by the impure calls inside `exprs` (None when there is no impure call)"""
        roots = None
        for e in exprs:
            if e is None:
                continue
            for n in ast.walk(e):
                if isinstance(n, ast.Call) and not self.is_pure_call(n):
                    roots = roots or set()
                    for x in ast.walk(n):
                        if isinstance(x, ast.Name):
                            roots.add(x.id)
        return roots

    def freeze(self, path, exprs):
        """before a statement that performs an impure call: every binding that reads the heap (attribute / subscript) is
        replaced by a snapshot symbol `_sN_name` (its value at this moment), and every assumed test that reads the heap or
        mentions an object handed to the call becomes stale (it is re-keyed and will be split again when tested again)"""
        roots = self._impure_roots([self.expand_quiet(e, path) for e in exprs if e is not None])
        if roots is None:
            return
        self.nfreeze += 1
        for name in self.rebound:
            path.env[name] = ast.Name(id='_h%d_%s' % (self.nfreeze, name), ctx=ast.Load())      # a nested function may re-bind it (nonlocal)
        for name, val in list(path.env.items()):
            if reads_heap(val, self.stable):
                sym = '_s%d_%s' % (self.nfreeze, name)
                self.snaps[sym] = (name, val, len(path.events))
                path.env[name] = ast.Name(id=sym, ctx=ast.Load())
        new = []
        for src, pol in path.conds:
            if STALE not in src and self._stale(src, roots):
                src = '%s%s%d' % (src, STALE, self.nfreeze)
            new.append((src, pol))
        path.conds = tuple(new)

    def _stale(self, src, roots):
        try:
            e = ast.parse(src, mode='eval').body
        except SyntaxError:
            return True
        for n in ast.walk(e):
            if isinstance(n, (ast.Attribute, ast.Subscript)):
                return True
            if isinstance(n, ast.Name) and n.id in roots and not n.id.startswith(('_c', '_s', '_h')):
                return True
        return False

    def expand_quiet(self, expr, path):
        """expansion without recording events (used to look ahead for impure calls)"""
        class Q(ast.NodeTransformer):
            def visit_Name(self_, node):
                if isinstance(node.ctx, ast.Load) and node.id in path.env:
                    return copy.deepcopy(path.env[node.id])
                return node

            def visit_Lambda(self_, node):
                return node
        return Q().visit(copy.deepcopy(expr))

    def _stmt_exprs(self, st):
        if isinstance(st, ast.Assign):
            return [st.value] + [t for t in st.targets if not isinstance(t, ast.Name)]
        if isinstance(st, (ast.AugAssign, ast.AnnAssign)):
            return [st.value]
        if isinstance(st, ast.Expr):
            return [st.value]
        if isinstance(st, (ast.If, ast.While)):
            return [st.test]
        if isinstance(st, ast.Return):
            return [st.value]
        if isinstance(st, ast.For):
            return [st.iter]
        return []

    def block(self, stmts, paths, done):
        for st in stmts:
            if not paths:
                break
            if len(paths) + len(done) > self.max_paths:
                raise Unsupported('more than %d paths in %s' % (self.max_paths, self.f.short))
            nxt = []
            for path in paths:
                nxt += self.stmt(st, path, done)
            paths = nxt
        return paths

    def stmt(self, st, path, done):
        self.freeze(path, self._stmt_exprs(st))
        if isinstance(st, ast.Assign):
            out = []
            for q, v in self.value_paths(st.value, path):
                for t in st.targets:
                    self.assign(t, v, q)
                out.append(q)
            return out
        if isinstance(st, ast.AnnAssign):
            if st.value is None:
                return [path]
            out = []
            for q, v in self.value_paths(st.value, path):
                self.assign(st.target, v, q)
                out.append(q)
            return out
        if isinstance(st, ast.AugAssign):
            out = []
            for q, v in self.value_paths(st.value, path):
                cur = self.expand(ast.Name(id=st.target.id, ctx=ast.Load()), q) if isinstance(st.target, ast.Name) else self.expand_target(st.target, q)
                new = ast.BinOp(left=cur, op=st.op, right=v)
                self.assign(st.target, new, q)
                out.append(q)
            return out
        if isinstance(st, ast.Expr):
            if isinstance(st.value, ast.Constant):
                return [path]
            return [q for q, _ in self.value_paths(st.value, path)]
        if isinstance(st, ast.If):
            t, f = self.cond(st.test, path)
            return self.block(st.body, t, done) + self.block(st.orelse, f, done)
        if isinstance(st, ast.Return):
            if st.value is None:
                path.ret = ast.Constant(value=None)
                path.exit = 'return'
                done.append(path)
                return []
            for q, v in self.value_paths(st.value, path):
                q.ret = v
                q.exit = 'return'
                done.append(q)
            return []
        if isinstance(st, ast.Raise):
            if st.exc is None:
                path.raised = ast.Constant(value=None)
                path.ret = None
                path.exit = 'raise'
                done.append(path)
                return []
            for q, v in self.value_paths(st.exc, path):
                q.raised = v
                q.ret = None
                q.exit = 'raise'
                done.append(q)
            return []
        if isinstance(st, ast.For) and self.unroll and not st.orelse:
            try:
                return self.unroll_for(st, path, done)
            except Unsupported:
                pass
        if isinstance(st, (ast.For, ast.While)):
            if isinstance(st, ast.For):
                self.expand(st.iter, path)
            self.havoc(st, path)
            return [path]
        if isinstance(st, (ast.Pass, ast.Global, ast.Nonlocal, ast.FunctionDef, ast.Import, ast.ImportFrom, ast.Assert)):
            return [path]
        if isinstance(st, ast.Try):
            self.havoc(st, path)
            return [path]
        if isinstance(st, (ast.Break, ast.Continue)):
            path.exit = 'break' if isinstance(st, ast.Break) else 'continue'
            done.append(path)
            return []
        raise Unsupported('statement %s in %s' % (type(st).__name__, self.f.short))


def summaries(project, func, inline=True, pure=(), select=None, unroll=False, named_constants=False):
    """-> list of finished paths of the normal form of `func` (ret set for returning paths, raised for raising ones)"""
    from . import norm
    node = norm.inline_helpers(project, func, select=select) if inline else copy.deepcopy(func.node)
    node = norm._Tests().visit(node)
    ast.fix_missing_locations(node)
    sp = SymPaths(project, func, node, pure=pure, unroll=unroll)
    sp.named_constants = named_constants
    sp.pure_project = named_constants
    paths = sp.run()
    for q in paths:
        q.snaps = sp.snaps
    return paths


def block_summaries(project, func, stmts, pure=(), env=None, ncall0=0, named_constants=False, assume=()):
    """paths through a statement list (e.g. one iteration of a loop body); `exit` tells how each path leaves it"""
    node = ast.FunctionDef(name='_block', args=None, body=list(stmts), decorator_list=[])
    sp = SymPaths(project, func, node, pure=pure)
    sp.ncall = ncall0
    sp.nobj0 = ncall0
    sp.named_constants = named_constants
    sp.pure_project = named_constants
    done = []
    first = Path(env=dict(env or {}))
    first.conds = tuple(assume)          # what holds on entry by construction (e.g. an enumerate() index is below the length)
    for q in sp.block(node.body, [first], done):
        done.append(q)
    for q in done:
        q.snaps = sp.snaps
    return done


def touches(node, root):
    """does the call / store event mention the object `root` (a source string) as receiver, argument or target?"""
    for n in ast.walk(node):
        if isinstance(n, (ast.Name, ast.Attribute)) and src_of(n) == root:
            return True
    return False


def mentions(path, pred):
    """all AST nodes n anywhere in the results of the path (return value, stores, call arguments, bindings) with pred(n)"""
    out = []
    roots = [path.ret, path.raised] + [e[1] for e in path.events] + list(path.env.values())
    for r in roots:
        if r is None:
            continue
        for n in ast.walk(r):
            if pred(n):
                out.append(n)
    return out


def unsnap(expr, snaps, depth=6):
    """replace snapshot symbols by the expressions they froze (drops the information *when* the value was read; only for
    values another rule shows to be stable, e.g. reads of a caller-owned dict that OWN-CALLER proves is never written)"""
    class U(ast.NodeTransformer):
        def __init__(self, d):
            self.d = d

        def visit_Name(self, node):
            if node.id in snaps and self.d > 0:
                return U(self.d - 1).visit(copy.deepcopy(snaps[node.id][1]))
            return node
    return U(depth).visit(copy.deepcopy(expr))


def feasible(paths):
    return [q for q in paths if not _contradictory(q)]


def _contradictory(q):
    seen = {}
    for s, pol in q.conds:
        if seen.get(s, pol) != pol:
            return True
        seen[s] = pol
    return False
