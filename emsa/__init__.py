"""emsa - static analysis of emmetio/py-emmet for properties C01..C20.

Nothing in this package imports or executes `emmet`; every rule parses the
current working tree of the repository (default /repo) with `ast`.
"""
