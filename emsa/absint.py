"""Structured, path-sensitive abstract interpreter over the statement kinds the
package uses (Assign, AugAssign, Expr, If, While, For, Return, Raise, Break,
Continue, Pass, Global, Try/except/finally, nested def).  The analysis state
is a *set* of abstract states (trace partitioning); a client supplies the
domain.  Loops are iterated until the set of states at the loop head stops
growing.  Anything outside the subset raises AnalysisError - the interpreter
never guesses an edge.
"""
import ast

from .core import AnalysisError, src_of

MAX_STATES = 4000
MAX_ITER = 60


class State:
    """Immutable map of facts plus a witness trace (not part of equality)."""
    __slots__ = ('facts', 'trace', '_h')

    def __init__(self, facts=None, trace=()):
        self.facts = facts or {}
        self.trace = trace
        self._h = None

    def key(self):
        if self._h is None:
            self._h = frozenset(self.facts.items())
        return self._h

    def __hash__(self):
        return hash(self.key())

    def __eq__(self, other):
        return isinstance(other, State) and self.key() == other.key()

    def get(self, k, default=None):
        return self.facts.get(k, default)

    def set(self, k, v):
        if self.facts.get(k, _MISSING) == v:
            return self
        d = dict(self.facts)
        d[k] = v
        return State(d, self.trace)

    def drop(self, k):
        if k not in self.facts:
            return self
        d = dict(self.facts)
        del d[k]
        return State(d, self.trace)

    def drop_if(self, pred):
        d = {k: v for k, v in self.facts.items() if not pred(k, v)}
        if len(d) == len(self.facts):
            return self
        return State(d, self.trace)

    def at(self, node, label=''):
        ln = getattr(node, 'lineno', None)
        if ln is None:
            return self
        t = self.trace
        item = '%d%s' % (ln, label)
        if t and t[-1] == item:
            return self
        if len(t) > 60:
            t = t[:20] + ('...',) + t[-30:]
        return State(self.facts, t + (item,))

    def show_trace(self):
        return ' -> '.join(self.trace)


_MISSING = object()


class Flow:
    __slots__ = ('normal', 'brk', 'cont', 'ret', 'rais')

    def __init__(self):
        self.normal = set()
        self.brk = set()
        self.cont = set()
        self.ret = []      # (state, value_node, stmt)
        self.rais = []     # (state, stmt)


class Client:
    """Domain hooks; defaults are neutral."""
    split_bool_assign = True

    def assign(self, it, state, target, value, stmt):
        return [state]

    def augassign(self, it, state, stmt):
        return [state]

    def call(self, it, state, call):
        """effect of a call evaluated for its value/side effect (not as a condition)"""
        return [state]

    def atom(self, it, state, expr):
        """atomic condition -> (true states, false states)"""
        return [state], [state]

    def on_return(self, it, state, value, stmt):
        return state

    def on_raise(self, it, state, stmt):
        return state

    def loop_enter(self, it, state, loop):
        return state

    def loop_iter(self, it, state, loop):
        """state at the start of an iteration (after the loop test was true)"""
        return state

    def loop_back(self, it, state, loop):
        """state flowing back to the loop head"""
        return state

    def loop_exit(self, it, state, loop):
        return state

    def for_target(self, it, state, loop):
        return [state]

    def for_may_be_empty(self, it, state, loop):
        """may the iterable of a for loop be empty (exit before the first iteration)?"""
        return True

    def widen(self, it, states):
        raise AnalysisError('%s: more than %d abstract states in %s' % (type(self).__name__, MAX_STATES, it.func.qualname))

    def name_written(self, state, name):
        return state


class Interp:
    def __init__(self, project, func, client, body=None):
        self.p = project
        self.func = func
        self.client = client
        self.loop_ids = {}
        self.body = body if body is not None else func.node.body

    # ----------------------------------------------------------- conditions
    def cond(self, expr, state):
        """-> (true_states, false_states) honouring short-circuit evaluation"""
        if isinstance(expr, ast.BoolOp):
            if isinstance(expr.op, ast.And):
                cur = [state]
                falses = []
                for v in expr.values:
                    nxt = []
                    for s in cur:
                        t, f = self.cond(v, s)
                        nxt += t
                        falses += f
                    cur = _dedup(nxt)
                return cur, _dedup(falses)
            cur = [state]
            trues = []
            for v in expr.values:
                nxt = []
                for s in cur:
                    t, f = self.cond(v, s)
                    trues += t
                    nxt += f
                cur = _dedup(nxt)
            return _dedup(trues), cur
        if isinstance(expr, ast.UnaryOp) and isinstance(expr.op, ast.Not):
            t, f = self.cond(expr.operand, state)
            return f, t
        if isinstance(expr, ast.IfExp):
            tt, tf = self.cond(expr.test, state)
            T, Fs = [], []
            for s in tt:
                a, b = self.cond(expr.body, s)
                T += a
                Fs += b
            for s in tf:
                a, b = self.cond(expr.orelse, s)
                T += a
                Fs += b
            return _dedup(T), _dedup(Fs)
        if isinstance(expr, ast.Constant):
            return ([state], []) if expr.value else ([], [state])
        if isinstance(expr, ast.NamedExpr):
            raise AnalysisError('walrus not supported')
        return self.client.atom(self, state, expr)

    # ---------------------------------------------------------- expressions
    def eval(self, expr, state):
        """evaluate for side effects; -> list of states"""
        if expr is None:
            return [state]
        if isinstance(expr, (ast.BoolOp, ast.IfExp)) or (isinstance(expr, ast.UnaryOp) and isinstance(expr.op, ast.Not)):
            t, f = self.cond(expr, state)
            return _dedup(t + f)
        if isinstance(expr, ast.Call):
            states = [state]
            if isinstance(expr.func, ast.Attribute):
                states = self._eval_seq([expr.func.value], states)
            states = self._eval_seq(list(expr.args) + [k.value for k in expr.keywords], states)
            out = []
            for s in states:
                out += self.client.call(self, s, expr)
            return _dedup(out)
        if isinstance(expr, (ast.Lambda, ast.Constant, ast.Name)):
            return [state]
        if isinstance(expr, (ast.ListComp, ast.SetComp, ast.DictComp, ast.GeneratorExp)):
            # comprehension bodies are evaluated zero or more times; clients that care override via call()
            return [state]
        children = [c for c in ast.iter_child_nodes(expr) if isinstance(c, ast.expr)]
        return self._eval_seq(children, [state])

    def _eval_seq(self, exprs, states):
        for e in exprs:
            nxt = []
            for s in states:
                nxt += self.eval(e, s)
            states = _dedup(nxt)
        return states

    # ----------------------------------------------------------- statements
    def run(self, init_states):
        fl = self.exec_block(self.body, set(init_states))
        # implicit return None
        for s in fl.normal:
            fl.ret.append((self.client.on_return(self, s, None, None), None, None))
        fl.normal = set()
        if fl.brk or fl.cont:
            raise AnalysisError('break/continue outside loop in %s' % self.func.qualname)
        return fl

    def exec_block(self, stmts, states):
        fl = Flow()
        cur = set(states)
        for st in stmts:
            if not cur:
                break
            sub = self.exec_stmt(st, cur)
            fl.brk |= sub.brk
            fl.cont |= sub.cont
            fl.ret += sub.ret
            fl.rais += sub.rais
            cur = sub.normal
            if len(cur) > MAX_STATES:
                cur = set(self.client.widen(self, cur))
        fl.normal = cur
        return fl

    def exec_stmt(self, st, states):
        fl = Flow()
        c = self.client
        if isinstance(st, ast.Expr):
            if isinstance(st.value, ast.Constant):
                fl.normal = set(states)
                return fl
            for s in states:
                fl.normal.update(self.eval(st.value, s.at(st)))
            return fl
        if isinstance(st, ast.Assign):
            for s in states:
                s = s.at(st)
                if len(st.targets) == 1 and isinstance(st.targets[0], ast.Name) and c.split_bool_assign and _boolish(st.value):
                    t, f = self.cond(st.value, s)
                    for x in t:
                        fl.normal.update(c.assign(self, x, st.targets[0], ('bool', True, st.value), st))
                    for x in f:
                        fl.normal.update(c.assign(self, x, st.targets[0], ('bool', False, st.value), st))
                    continue
                for s2 in self.eval(st.value, s):
                    cur = [s2]
                    for t in st.targets:
                        nxt = []
                        for x in cur:
                            # evaluate sub-expressions of the target (receiver, index)
                            ys = [x]
                            if isinstance(t, ast.Attribute):
                                ys = self.eval(t.value, x)
                            elif isinstance(t, ast.Subscript):
                                ys = self._eval_seq([t.value, t.slice], [x])
                            for y in ys:
                                nxt += c.assign(self, y, t, st.value, st)
                        cur = nxt
                    fl.normal.update(cur)
            return fl
        if isinstance(st, ast.Delete):
            # del x / del o.f / del xs[i] / del xs[a:b]: a store of "nothing" into the target; clients see assign(.., None, Delete)
            for s in states:
                cur = [s.at(st)]
                for t in st.targets:
                    nxt = []
                    for x in cur:
                        ys = [x]
                        if isinstance(t, ast.Attribute):
                            ys = self.eval(t.value, x)
                        elif isinstance(t, ast.Subscript):
                            ys = self._eval_seq([t.value, t.slice], [x])
                        for y in ys:
                            nxt += c.assign(self, y, t, None, st)
                    cur = nxt
                fl.normal.update(cur)
            return fl
        if isinstance(st, ast.AugAssign):
            for s in states:
                for s2 in self.eval(st.value, s.at(st)):
                    fl.normal.update(c.augassign(self, s2, st))
            return fl
        if isinstance(st, ast.AnnAssign):
            for s in states:
                for s2 in self.eval(st.value, s.at(st)) if st.value is not None else [s]:
                    fl.normal.update(c.assign(self, s2, st.target, st.value, st))
            return fl
        if isinstance(st, ast.If):
            T, Fs = set(), set()
            for s in states:
                t, f = self.cond(st.test, s.at(st))
                T.update(x.at(st, 'T') for x in t)
                Fs.update(x.at(st, 'F') for x in f)
            a = self.exec_block(st.body, T)
            b = self.exec_block(st.orelse, Fs) if st.orelse else None
            fl.normal = a.normal | (b.normal if b is not None else Fs)
            for sub in (a, b):
                if sub is None:
                    continue
                fl.brk |= sub.brk
                fl.cont |= sub.cont
                fl.ret += sub.ret
                fl.rais += sub.rais
            return fl
        if isinstance(st, (ast.While, ast.For)):
            return self.exec_loop(st, states)
        if isinstance(st, ast.Return) and isinstance(st.value, ast.IfExp):
            # return a if c else b   ==   if c: return a  else: return b
            T, Fs = set(), set()
            for s in states:
                t, f = self.cond(st.value.test, s.at(st))
                T.update(t)
                Fs.update(f)
            for val, ss in ((st.value.body, T), (st.value.orelse, Fs)):
                r = ast.Return(value=val)
                ast.copy_location(r, st)
                sub = self.exec_stmt(r, ss)
                fl.ret += [(x, v, st) for x, v, _ in sub.ret]
                fl.rais += sub.rais
            return fl
        if isinstance(st, ast.Return):
            for s in states:
                s = s.at(st)
                # inside a try with a finally clause the function is left only after the finally body ran: the client's
                # exit hook is called then (see Try below)
                hook = (lambda x, v: c.on_return(self, x, v, st)) if not getattr(self, '_fin', 0) else (lambda x, v: x)
                if st.value is not None and _boolish(st.value):
                    t, f = self.cond(st.value, s)
                    for x in t:
                        fl.ret.append((hook(x, ('bool', True, st.value)), ('bool', True, st.value), st))
                    for x in f:
                        fl.ret.append((hook(x, ('bool', False, st.value)), ('bool', False, st.value), st))
                else:
                    for x in self.eval(st.value, s):
                        fl.ret.append((hook(x, st.value), st.value, st))
            return fl
        if isinstance(st, ast.Raise):
            for s in states:
                for x in self.eval(st.exc, s.at(st)):
                    fl.rais.append((c.on_raise(self, x, st), st))
            return fl
        if isinstance(st, ast.Break):
            fl.brk = set(s.at(st, 'brk') for s in states)
            return fl
        if isinstance(st, ast.Continue):
            fl.cont = set(s.at(st, 'cont') for s in states)
            return fl
        if isinstance(st, (ast.Pass, ast.Global, ast.Nonlocal, ast.Import, ast.ImportFrom)):
            fl.normal = set(states)
            return fl
        if isinstance(st, (ast.FunctionDef, ast.ClassDef)):
            fl.normal = set(states)
            return fl
        if isinstance(st, ast.Try):
            if st.finalbody:
                self._fin = getattr(self, '_fin', 0) + 1
            body = self.exec_block(st.body, states)
            # an exception may be raised anywhere in the body: handlers start from the entry states and every state reached in the body
            entry = set(states) | body.normal | {s for s, _ in body.rais}
            normal = set(body.normal)
            pend = Flow()
            pend.brk, pend.cont, pend.ret = set(body.brk), set(body.cont), list(body.ret)
            rais = [] if st.handlers else list(body.rais)
            for h in st.handlers:
                hf = self.exec_block(h.body, entry)
                normal |= hf.normal
                pend.brk |= hf.brk
                pend.cont |= hf.cont
                pend.ret += hf.ret
                rais += hf.rais
            if st.orelse:
                ef = self.exec_block(st.orelse, body.normal)
                normal = (normal - body.normal) | ef.normal
                pend.brk |= ef.brk
                pend.cont |= ef.cont
                pend.ret += ef.ret
                rais += ef.rais
            if st.finalbody:
                self._fin -= 1
                # finally runs on every exit
                nf = self.exec_block(st.finalbody, normal)
                fl.normal = nf.normal
                fl.ret += nf.ret
                fl.rais += nf.rais
                for kind in ('brk', 'cont'):
                    ss = getattr(pend, kind)
                    if ss:
                        ff = self.exec_block(st.finalbody, ss)
                        getattr(fl, kind).update(ff.normal)
                for (s, v, rs) in pend.ret:
                    ff = self.exec_block(st.finalbody, {s})
                    for x in ff.normal:
                        if not self._fin:
                            x = c.on_return(self, x, v, rs)
                        fl.ret.append((x, v, rs))
                # exceptional exit: from any state of the protected region
                exc_entry = entry | {s for s, _ in rais}
                ff = self.exec_block(st.finalbody, exc_entry)
                for x in ff.normal:
                    fl.rais.append((x, st))
            else:
                fl.normal = normal
                fl.brk, fl.cont, fl.ret = pend.brk, pend.cont, pend.ret
                fl.rais = rais
            return fl
        raise AnalysisError('statement kind %s is outside the analysed subset (%s:%d)' % (type(st).__name__, self.func.module.relpath, st.lineno))

    def exec_loop(self, st, states):
        fl = Flow()
        c = self.client
        head = set(c.loop_enter(self, s.at(st), st) for s in states)
        seen = set()
        exits = set()
        breaks = set()          # left by `break`: the else clause of the loop is skipped
        work = set(head)
        it = 0
        while work:
            it += 1
            if it > MAX_ITER:
                raise AnalysisError('loop at %s:%d does not stabilise in %d iterations' % (self.func.module.relpath, st.lineno, MAX_ITER))
            new = work - seen
            if not new:
                break
            seen |= new
            if len(seen) > MAX_STATES:
                raise AnalysisError('more than %d states at loop head %s:%d' % (MAX_STATES, self.func.module.relpath, st.lineno))
            T = set()
            if isinstance(st, ast.While):
                for s in new:
                    s = c.loop_iter(self, s, st)            # progress markers start before the test (the test may consume)
                    t, f = self.cond(st.test, s)
                    T.update(x.at(st, 'T') for x in t)
                    exits.update(x.at(st, 'F') for x in f)
            else:
                for s in new:
                    for s2 in self.eval(st.iter, s):
                        if it > 1 or s not in head or c.for_may_be_empty(self, s2, st):
                            exits.add(s2)                   # exhausted
                        T.update(c.loop_iter(self, x, st) for x in c.for_target(self, s2, st))
            body = self.exec_block(st.body, T)
            fl.ret += body.ret
            fl.rais += body.rais
            breaks |= body.brk
            back = body.normal | body.cont
            work = set(c.loop_back(self, s, st) for s in back)
        fl.normal = set(c.loop_exit(self, s, st) for s in breaks)
        done = set(c.loop_exit(self, s, st) for s in exits)
        if st.orelse:
            # while/for ... else: the else clause runs when the loop ends because its test failed / its iterable is exhausted
            e = self.exec_block(st.orelse, done)
            fl.normal |= e.normal
            fl.ret += e.ret
            fl.rais += e.rais
            fl.brk = e.brk
            fl.cont = e.cont
        else:
            fl.normal |= done
        return fl


def _dedup(xs):
    seen = set()
    out = []
    for x in xs:
        if x not in seen:
            seen.add(x)
            out.append(x)
    return out


def _boolish(e):
    return isinstance(e, (ast.Call, ast.BoolOp, ast.Compare)) or (isinstance(e, ast.UnaryOp) and isinstance(e.op, ast.Not))
