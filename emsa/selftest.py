"""Checker self-test, run by the thorough tier.

For the property being checked, every recorded seeded change (/verif/seeded/<name>, a change that breaks the property
while the repository's tests still pass) and every recorded behaviour-preserving refactoring (/verif/twins/<name>) is
applied to a scratch copy of /repo's *current working tree* and the quick check of that property is run on the copy:
a seeded change must be reported as recorded in its `expect.json` (VIOLATION, or a documented miss), a refactoring must
not be reported.  The copies live outside /repo and /verif and are removed.  The self-test never changes the verdict
about /repo itself: it measures the checker, and its outcome is written into the evidence file."""
import json
import os
import shutil
import subprocess
import sys
import tempfile
from concurrent.futures import ThreadPoolExecutor

VERIF = os.path.dirname(os.path.dirname(os.path.abspath(__file__)))


def _scratch():
    base = '/dev/shm' if os.path.isdir('/dev/shm') and os.access('/dev/shm', os.W_OK) else tempfile.gettempdir()
    return tempfile.mkdtemp(prefix='emsa_selftest_', dir=base)


def _copy_tree(repo, dst):
    """the working tree of repo (tracked and untracked python sources), without .git"""
    def ignore(d, names):
        return [n for n in names if n in ('.git', '__pycache__', '.pytest_cache', 'node_modules') or n.endswith('.pyc')]
    shutil.copytree(repo, dst, ignore=ignore, symlinks=True)


def _one(args):
    kind, name, pid, repo = args
    d = os.path.join(VERIF, 'seeded' if kind == 'seed' else 'twins', name)
    tmp = _scratch()
    out = {'kind': kind, 'name': name}
    try:
        wt = os.path.join(tmp, 'repo')
        _copy_tree(repo, wt)
        r = subprocess.run(['git', 'apply', '--whitespace=nowarn', os.path.join(d, 'patch.diff')], cwd=wt, capture_output=True, text=True)
        if r.returncode:
            r = subprocess.run(['patch', '-p1', '-s', '-f', '-i', os.path.join(d, 'patch.diff')], cwd=wt, capture_output=True, text=True)
        if r.returncode:
            out['status'] = 'skipped'
            out['why'] = 'patch does not apply to the current tree'
            return out
        env = dict(os.environ)
        env['EMSA_NO_EVIDENCE'] = '1'
        env.pop('EMSA_REPO', None)
        r = subprocess.run([sys.executable, '-m', 'emsa.run', '--property', pid, '--tier', 'quick', '--repo', wt], cwd=VERIF, env=env,
                           capture_output=True, text=True, timeout=900)
        lines = r.stdout.splitlines()
        out['exit'] = r.returncode
        out['rules'] = sorted({l.split('  ')[1].strip() for l in lines if l.startswith('emmet/') and '  ' in l})
        out['undecided'] = sum(1 for l in lines if l.startswith('UNDECIDED'))
        out['status'] = {0: 'silent', 1: 'reported', 2: 'cannot-decide'}.get(r.returncode, 'cannot-decide')
        return out
    except Exception as e:          # the self-test must never break the check
        out['status'] = 'skipped'
        out['why'] = '%s: %s' % (type(e).__name__, e)
        return out
    finally:
        shutil.rmtree(tmp, ignore_errors=True)


def catalogue(pid):
    items = []
    sd = os.path.join(VERIF, 'seeded')
    for name in sorted(os.listdir(sd)) if os.path.isdir(sd) else []:
        mp = os.path.join(sd, name, 'meta.json')
        if not os.path.exists(mp) or not os.path.exists(os.path.join(sd, name, 'patch.diff')):
            continue
        try:
            meta = json.load(open(mp))
        except Exception:
            continue
        if meta.get('property') == pid:
            items.append(('seed', name))
    td = os.path.join(VERIF, 'twins')
    for name in sorted(os.listdir(td)) if os.path.isdir(td) else []:
        if name.startswith(pid + '-') or name.startswith(pid + 'b-'):
            if os.path.exists(os.path.join(td, name, 'patch.diff')):
                items.append(('twin', name))
    return items


def run_for_property(pid, seed, repo=None):
    from .core import REPO
    repo = repo or REPO
    items = catalogue(pid)
    if not items:
        return 0
    with ThreadPoolExecutor(min(16, len(items))) as ex:
        results = list(ex.map(_one, [(k, n, pid, repo) for k, n in items]))
    summary = {'seeded_reported': 0, 'seeded_missed': 0, 'seeded_unexpected': [], 'twins_silent': 0, 'twins_reported': [], 'skipped': 0, 'cannot_decide': 0}
    for r in results:
        exp = {}
        ep = os.path.join(VERIF, 'seeded' if r['kind'] == 'seed' else 'twins', r['name'], 'expect.json')
        if os.path.exists(ep):
            try:
                exp = json.load(open(ep))
            except Exception:
                exp = {}
        r['expected'] = exp.get('status')
        if r['status'] == 'skipped':
            summary['skipped'] += 1
            continue
        if r['status'] == 'cannot-decide':
            summary['cannot_decide'] += 1
        if r['kind'] == 'seed':
            if r['status'] == 'reported':
                summary['seeded_reported'] += 1
            else:
                summary['seeded_missed'] += 1
            if exp.get('status') and exp['status'] != r['status']:
                summary['seeded_unexpected'].append(r['name'])
        else:
            if r['status'] == 'reported':
                summary['twins_reported'].append(r['name'])
            else:
                summary['twins_silent'] += 1
    print('SELF-TEST %s: %d seeded changes reported, %d not reported (documented misses), %d refactorings silent, %d refactorings reported, %d skipped, %d cannot-decide'
          % (pid, summary['seeded_reported'], summary['seeded_missed'], summary['twins_silent'], len(summary['twins_reported']), summary['skipped'], summary['cannot_decide']))
    for n in summary['seeded_unexpected']:
        print('SELF-TEST-NOTE %s: seeded change %s is no longer handled as recorded in its expect.json' % (pid, n))
    for n in summary['twins_reported']:
        print('SELF-TEST-NOTE %s: behaviour-preserving refactoring %s is reported: the check would raise a false alarm on it' % (pid, n))
    # append to the evidence of this run
    ev_path = os.path.join(VERIF, 'evidence', pid + '.json')
    if os.path.exists(ev_path) and not os.environ.get('EMSA_NO_EVIDENCE'):
        try:
            ev = json.load(open(ev_path))
            ev.setdefault('coverage', {})['self_test'] = {'summary': summary, 'items': results,
                                                         'method': 'each recorded change applied to a scratch copy of the current working tree; quick check of this property run on the copy'}
            json.dump(ev, open(ev_path, 'w'), indent=1, default=str)
        except Exception:
            pass
    return 0
