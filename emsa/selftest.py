"""Checker self-test (mutant/twin catalogue).  Filled in later; see DESIGN section 6."""


def run_for_property(pid, seed):
    return 0
