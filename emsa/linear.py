"""Normal form of integer expressions built from atoms, +, -, constant factors."""
import ast
from .core import src_of


def linear(e, subst=None):
    """-> dict atom-source -> coefficient ('1' is the constant term), or None."""
    subst = subst or {}
    if isinstance(e, ast.Constant) and isinstance(e.value, int) and not isinstance(e.value, bool):
        return {'1': e.value} if e.value else {}
    if isinstance(e, ast.UnaryOp) and isinstance(e.op, ast.USub):
        a = linear(e.operand, subst)
        return None if a is None else {k: -v for k, v in a.items()}
    if isinstance(e, ast.BinOp) and isinstance(e.op, (ast.Add, ast.Sub)):
        a, b = linear(e.left, subst), linear(e.right, subst)
        if a is None or b is None:
            return None
        out = dict(a)
        sign = 1 if isinstance(e.op, ast.Add) else -1
        for k, v in b.items():
            out[k] = out.get(k, 0) + sign * v
        return {k: v for k, v in out.items() if v}
    if isinstance(e, ast.BinOp) and isinstance(e.op, ast.Mult):
        for x, y in ((e.left, e.right), (e.right, e.left)):
            if isinstance(x, ast.Constant) and isinstance(x.value, int):
                a = linear(y, subst)
                return None if a is None else {k: v * x.value for k, v in a.items() if v * x.value}
        # product of atoms: treat as one atom with sorted factors
        return {'*'.join(sorted([src_of(e.left), src_of(e.right)])): 1}
    s = src_of(e)
    if s in subst:
        return linear(subst[s], subst) if isinstance(subst[s], ast.AST) else dict(subst[s])
    if isinstance(e, (ast.Name, ast.Attribute, ast.Call, ast.Subscript)):
        return {s: 1}
    return None


def show(lin):
    if lin is None:
        return '<non-linear>'
    if not lin:
        return '0'
    parts = []
    for k in sorted(lin):
        v = lin[k]
        parts.append(('%+d' % v) if k == '1' else ('%+d*%s' % (v, k)))
    return ' '.join(parts)
