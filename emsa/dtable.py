"""Decision tables of small functions, read off their symbolic path summaries.

`cases(project, func)` lists, for every feasible path, the assumed atoms (in a
canonical spelling) and the outcome: returned expression, stores and calls in
execution order (all over the inputs of the function, locals substituted).
`check(...)` compares that table with a specification given as rows
(partial assignment of atoms -> expected outcome): every path consistent with
a row must have the row's outcome and every path must fall under some row.
The comparison is insensitive to the names of locals, to if/else vs conditional
expressions, guard clauses, the order of independent tests and to how strings
and integer sums are spelled ('%s at %d' % (m, p + 1) == m + ' at ' + str(..)
is NOT attempted: only %-format, + and f-strings over the same pieces agree).
"""
import ast
import copy

from .core import src_of
from .linear import linear, show
from . import sympath
from .sympath import STALE
from .shape import strparts


def canon_atom(src, pol):
    """canonical spelling of a test: comparisons are oriented with < and ==, `is not`/`!=`/`>=` become negated atoms"""
    src = src.split(STALE)[0]
    try:
        e = ast.parse(src, mode='eval').body
    except SyntaxError:
        return src, pol
    while isinstance(e, ast.UnaryOp) and isinstance(e.op, ast.Not):
        e, pol = e.operand, not pol
    if isinstance(e, ast.Compare) and len(e.ops) == 1:
        l, r, op = e.left, e.comparators[0], type(e.ops[0])
        if op is ast.Gt:            # a > b  ==  b < a
            l, r, op = r, l, ast.Lt
        elif op is ast.GtE:         # a >= b ==  not a < b
            op, pol = ast.Lt, not pol
        elif op is ast.LtE:         # a <= b ==  not b < a
            l, r, op, pol = r, l, ast.Lt, not pol
        elif op is ast.NotEq:
            op, pol = ast.Eq, not pol
        elif op is ast.IsNot:
            op, pol = ast.Is, not pol
        elif op is ast.NotIn:
            op, pol = ast.In, not pol
        if op is ast.Eq and src_of(l) > src_of(r):
            l, r = r, l
        if op is ast.Lt or (op is ast.Eq and _numeric(ast.BinOp(left=l, op=ast.Sub(), right=r)) and not any(isinstance(x, ast.Constant) and isinstance(x.value, str) for x in (l, r))):
            # integer comparison: everything on one side, terms sorted, first coefficient positive:  a < b  ->  "a - b < 0"
            d = linear(ast.BinOp(left=l, op=ast.Sub(), right=r))
            if d is not None and d:
                first = sorted(d)[0]
                sym = '<' if op is ast.Lt else '=='
                if d[first] < 0:
                    d = {k: -v for k, v in d.items()}
                    if op is ast.Lt:
                        sym = '>'
                return '%s %s 0' % (show(d), sym), pol
        sym = {ast.Lt: '<', ast.Eq: '==', ast.Is: 'is', ast.In: 'in'}.get(op)
        if sym:
            return '%s %s %s' % (canon(l), sym, canon(r)), pol
    return canon(e), pol


_NUMERIC_WORDS = {'pos', 'start', 'end', 'offset', 'level', 'size', 'index', 'line', 'column', 'count', 'base', 'field', 'value_start', 'value_end',
                  'name_start', 'name_end', 'i', 'l', 'n', 'length', 'nested', 'priority', 'repeat_guard', 'body_start', 'body_end'}


def _terms(e):
    """additive terms of an expression (through +, -, unary minus and constant factors)"""
    if isinstance(e, ast.BinOp) and isinstance(e.op, (ast.Add, ast.Sub)):
        return _terms(e.left) + _terms(e.right)
    if isinstance(e, ast.UnaryOp) and isinstance(e.op, ast.USub):
        return _terms(e.operand)
    if isinstance(e, ast.BinOp) and isinstance(e.op, ast.Mult):
        if isinstance(e.left, ast.Constant) and isinstance(e.left.value, int):
            return _terms(e.right)
        if isinstance(e.right, ast.Constant) and isinstance(e.right.value, int):
            return _terms(e.left)
    return [e]


def _numeric(e):
    """is this sum integer arithmetic (then its terms commute)?  Sums of lists / strings keep the order of their operands.
    Decided on the additive terms themselves (an index inside a subscript says nothing about the sum)."""
    terms = _terms(e)
    if any(isinstance(t, (ast.List, ast.Tuple, ast.ListComp, ast.JoinedStr)) or (isinstance(t, ast.Constant) and isinstance(t.value, (str, bytes))) for t in terms):
        return False
    for t in terms:
        if isinstance(t, ast.Constant) and isinstance(t.value, int) and not isinstance(t.value, bool):
            return True
        if isinstance(t, ast.Call) and isinstance(t.func, ast.Name) and t.func.id in ('len', 'int', 'ord', 'min', 'max', 'abs'):
            return True
        x = t
        while isinstance(x, ast.Subscript):
            x = x.value
        w = x.attr if isinstance(x, ast.Attribute) else (x.id if isinstance(x, ast.Name) else None)
        if w is not None:
            for pre in ('_acc_', '_fin_'):
                if w.startswith(pre):
                    w = w[len(pre):]
            if w in _NUMERIC_WORDS:
                return True
    return False


def _norm_parts(parts):
    """string pieces: a data piece that is itself a string literal is text; adjacent text pieces are one"""
    out = []
    for x in parts:
        if isinstance(x, tuple):
            try:
                e = _Canon().visit(ast.parse(x[1], mode='eval').body)
            except SyntaxError:
                e = None
            if isinstance(e, ast.Constant) and isinstance(e.value, str):
                x = e.value
        if isinstance(x, str) and out and isinstance(out[-1], str):
            out[-1] += x
        else:
            out.append(x)
    return out


class _RenameVar(ast.NodeTransformer):
    def __init__(self, m):
        self.m = m

    def visit_Name(self, n):
        return ast.copy_location(ast.Name(id=self.m[n.id], ctx=n.ctx), n) if n.id in self.m else n


class _Canon(ast.NodeTransformer):
    _depth = 0

    def _comp(self, node):
        """comprehension variables get positional names (_k<depth>_<i>): renaming them changes nothing"""
        _Canon._depth += 1
        try:
            m = {}
            for g in node.generators:
                for x in ast.walk(g.target):
                    if isinstance(x, ast.Name):
                        m.setdefault(x.id, '_k%d_%d' % (_Canon._depth, len(m)))
            node = _RenameVar(m).visit(node)
            self.generic_visit(node)
            return node
        finally:
            _Canon._depth -= 1

    def visit_ListComp(self, node):
        return self._comp(node)

    def visit_GeneratorExp(self, node):
        return self._comp(node)

    def visit_SetComp(self, node):
        return self._comp(node)

    def visit_DictComp(self, node):
        return self._comp(node)

    def visit_Call(self, node):
        # list(filter(f, xs)) == [x for x in xs if f(x)] ; list(map(f, xs)) == [f(x) for x in xs]  (f a plain name or None)
        if isinstance(node.func, ast.Name) and node.func.id in ('list', 'tuple') and len(node.args) == 1 and not node.keywords \
                and isinstance(node.args[0], ast.Call) and isinstance(node.args[0].func, ast.Name) and node.args[0].func.id in ('filter', 'map') \
                and len(node.args[0].args) == 2 and not node.args[0].keywords and node.func.id == 'list':
            inner = node.args[0]
            fexpr, xs = inner.args
            one_arg_lambda = isinstance(fexpr, ast.Lambda) and len(fexpr.args.args) == 1 and not fexpr.args.vararg and not fexpr.args.kwarg \
                and not fexpr.args.kwonlyargs and not fexpr.args.defaults
            if (isinstance(fexpr, ast.Constant) and fexpr.value is None and inner.func.id == 'filter') or isinstance(fexpr, (ast.Name, ast.Attribute)) or one_arg_lambda:
                v = ast.Name(id='_x', ctx=ast.Load())
                if one_arg_lambda:
                    app = _RenameVar({fexpr.args.args[0].arg: '_x'}).visit(copy.deepcopy(fexpr.body))
                else:
                    app = v if isinstance(fexpr, ast.Constant) else ast.Call(func=fexpr, args=[v], keywords=[])
                gen = ast.comprehension(target=ast.Name(id='_x', ctx=ast.Store()), iter=xs, ifs=[app] if inner.func.id == 'filter' else [], is_async=0)
                comp = ast.ListComp(elt=(v if inner.func.id == 'filter' else app), generators=[gen])
                return self.visit(ast.fix_missing_locations(comp))
        self.generic_visit(node)
        # <..>.options.get('section.key', <empty literal>) == <..>.options.get('section.key') (the canonical option read of
        # core._optdefault_norm, here for keys that only become constants after substitution)
        if isinstance(node.func, ast.Attribute) and node.func.attr == 'get' and len(node.args) == 2 and not node.keywords \
                and isinstance(node.args[0], ast.Constant) and isinstance(node.args[0].value, str) and ('.' in node.args[0].value or node.args[0].value == 'inlineElements') \
                and ((isinstance(node.func.value, ast.Attribute) and node.func.value.attr == 'options') or (isinstance(node.func.value, ast.Name) and node.func.value.id == 'options')):
            d = node.args[1]
            if (isinstance(d, ast.Constant) and d.value in ('', 0) and not isinstance(d.value, bool)) or (isinstance(d, (ast.List, ast.Tuple)) and not d.elts) \
                    or (isinstance(d, ast.Dict) and not d.keys):
                node.args = node.args[:1]
        # super(C, self) == super() inside a method of C
        if isinstance(node.func, ast.Name) and node.func.id == 'super' and len(node.args) == 2:
            return ast.Call(func=node.func, args=[], keywords=[])
        # old<t>((a, b)) == (old<t>(a), old<t>(b)): a tuple display is evaluated element by element
        if isinstance(node.func, ast.Name) and node.func.id.startswith('old') and node.func.id[3:].isdigit() and len(node.args) == 1 \
                and isinstance(node.args[0], ast.Tuple) and not any(isinstance(x, ast.Starred) for x in node.args[0].elts):
            return ast.Tuple(elts=[x if isinstance(x, ast.Constant) else ast.Call(func=node.func, args=[x], keywords=[]) for x in node.args[0].elts], ctx=ast.Load())
        return node

    def visit_Subscript(self, node):
        self.generic_visit(node)
        # old<t>(f(..))[k] == old<t>(f(..)[k]) for a constant k: a function result indexed by a constant is a returned tuple (an
        # immutable value), so destructuring it early or late reads the same component
        v = node.value
        if isinstance(v, ast.Call) and isinstance(v.func, ast.Name) and v.func.id.startswith('old') and v.func.id[3:].isdigit() and len(v.args) == 1 \
                and isinstance(v.args[0], ast.Call) and isinstance(node.slice, ast.Constant) and isinstance(node.slice.value, (int, str)):
            return ast.Call(func=v.func, args=[ast.Subscript(value=v.args[0], slice=node.slice, ctx=ast.Load())], keywords=[])
        # (a, b)[0] == a: a tuple display is an immutable value
        if isinstance(node.value, ast.Tuple) and isinstance(node.slice, ast.Constant) and isinstance(node.slice.value, int) \
                and not isinstance(node.slice.value, bool) and -len(node.value.elts) <= node.slice.value < len(node.value.elts) \
                and not any(isinstance(x, ast.Starred) for x in node.value.elts):
            return node.value.elts[node.slice.value]
        return node

    def visit_BinOp(self, node):
        if isinstance(node.op, ast.Mod) and isinstance(node.right, ast.Call) and isinstance(node.right.func, ast.Name) and node.right.func.id.startswith('old') \
                and len(node.right.args) == 1 and isinstance(node.right.args[0], ast.Tuple):
            node = ast.BinOp(left=node.left, op=node.op, right=self.visit_Call(copy.deepcopy(node.right)))
        parts = strparts(node)
        if parts is not None:
            parts = _norm_parts(parts)
            if len(parts) == 1 and isinstance(parts[0], str):
                return ast.Constant(value=parts[0])
        if parts is not None and len(parts) > 1 and any(isinstance(x, str) for x in parts):
            txt = 'S[' + ' '.join(repr(x) if isinstance(x, str) else '{%s}' % canon(ast.parse(x[1], mode='eval').body) for x in parts) + ']'
            return ast.Name(id=txt, ctx=ast.Load())
        if isinstance(node.op, (ast.Add, ast.Sub)) and _numeric(node):
            lin = linear(node)
            if lin is not None:
                # the terms themselves in canonical spelling
                lin2 = {}
                for k, v in lin.items():
                    k2 = k
                    if k != '1':
                        try:
                            k2 = canon(ast.parse(k, mode='eval').body)
                        except SyntaxError:
                            k2 = k
                    lin2[k2] = lin2.get(k2, 0) + v
                lin2 = {k: v for k, v in lin2.items() if v}
                return ast.Name(id='L[%s]' % show(lin2), ctx=ast.Load())
        self.generic_visit(node)
        return node

    def visit_JoinedStr(self, node):
        parts = strparts(node)
        if parts is not None:
            parts = _norm_parts(parts)
            if len(parts) == 1 and isinstance(parts[0], str):
                return ast.Constant(value=parts[0])
            txt = 'S[' + ' '.join(repr(x) if isinstance(x, str) else '{%s}' % canon(ast.parse(x[1], mode='eval').body) for x in parts) + ']'
            return ast.Name(id=txt, ctx=ast.Load())
        return node


def canon(e):
    if e is None:
        return 'None'
    return src_of(_Canon().visit(copy.deepcopy(e)))


def _sorted_stores(effects):
    """consecutive stores to different targets commute: order them by target"""
    out, run = [], []
    for e in list(effects) + [None]:
        if e is not None and e.startswith('store '):
            run.append(e)
            continue
        tg = [x.split(' = ')[0] for x in run]
        out += sorted(run) if len(set(tg)) == len(tg) else run
        run = []
        if e is not None:
            out.append(e)
    return out


class Case:
    def __init__(self, conds, ret, effects, exit, path):
        self.conds, self.ret, self.effects, self.exit, self.path = conds, ret, effects, exit, path

    def skeleton(self):
        """kinds of the effects without operands: 'call f' / 'store target' / exit kind"""
        out = []
        for e in _sorted_stores(self.effects):
            if e.startswith('store '):
                out.append(e.split(' = ')[0])
            elif e.startswith('call '):
                out.append('call')
            else:
                out.append(e.split(' ')[0])
        out.append(self.exit)
        return out

    def outcome(self):
        out = _sorted_stores(self.effects)
        if self.exit == 'return':
            out.append('ret ' + self.ret)
        elif self.exit == 'raise':
            out.append('raise ' + self.ret)
        elif self.exit == 'end':
            out.append('ret None')
        return ' ; '.join(out)

    def cond_str(self):
        return ' and '.join(('%s' if v else 'not (%s)') % k for k, v in sorted(self.conds.items())) or 'always'


def _test_text(e, r):
    if isinstance(e, ast.BoolOp):
        return '(' + (' and ' if isinstance(e.op, ast.And) else ' or ').join(_test_text(v, r) for v in e.values) + ')'
    if isinstance(e, ast.UnaryOp) and isinstance(e.op, ast.Not):
        return 'not ' + _test_text(e.operand, r)
    k, v = canon_atom(r(e), True)
    return k if v else 'not (%s)' % k


_CTX = []          # (project, func) of the table being rendered, for loops nested in branches
_DEPTH = [0]


def _loop_text(q, n, r):
    """canonical text of a loop the summary does not enter: the decision table of one generic iteration (loop-carried
    locals symbolic), rendered recursively; falls back to the statements of the body when that is not possible"""
    if not isinstance(n, (ast.For, ast.While)):
        raise sympath.Unsupported('a %s statement is summarised as one opaque step' % type(n).__name__.lower())
    body = [st for st in n.body if not isinstance(st, ast.Pass)]
    btxt = None
    if body and _CTX and _DEPTH[0] < 2:
        project, func = _CTX[-1]
        try:
            _DEPTH[0] += 1
            carried = sorted({x.id for st in n.body for x in ast.walk(st) if isinstance(x, ast.Name) and isinstance(x.ctx, ast.Store)})
            env = {}
            for k, v in q.env.items():
                env[k] = q.resolve(v, objects=False)          # spelled over the inputs (outer snapshots / calls written out)
            for c in carried:
                env[c] = ast.Name(id='_acc_' + c, ctx=ast.Load())
            stmts = list(n.body)
            if isinstance(n, ast.While):
                stmts = [ast.If(test=ast.UnaryOp(op=ast.Not(), operand=n.test), body=[ast.Break()], orelse=[])] + stmts
            else:
                for t in ast.walk(n.target):
                    if isinstance(t, ast.Name):
                        env[t.id] = ast.Name(id='_elem_' + t.id, ctx=ast.Load())
            paths = sympath.feasible(sympath.block_summaries(project, func, stmts, env=env, ncall0=1000 * _DEPTH[0], named_constants=True,
                                                             assume=_enumerate_bound(n, env)))
            cs = _cases_of_paths(paths)
            parts = []
            for c in cs:
                tail = _env_suffix(c, carried) if c.exit in ('end', 'continue', 'break') else ''
                o = c.outcome() if c.exit not in ('continue', 'break', 'end') else ' ; '.join(list(_sorted_stores(c.effects)) + ['next' if c.exit != 'break' else 'break'])
                parts.append('%s -> %s%s' % (c.cond_str(), o, (' || ' + tail) if tail else ''))
            # the locals of the nested loop get positional names (n<depth>_<i>, in order of first assignment): renaming them
            # changes nothing
            import re as _re
            def dfs(x):
                yield x
                for ch in ast.iter_child_nodes(x):
                    yield from dfs(ch)
            lren = {}
            if isinstance(n, ast.For):
                for x in dfs(n.target):
                    if isinstance(x, ast.Name):
                        lren.setdefault(x.id, 'n%d_%d' % (_DEPTH[0], len(lren)))
            for st in list(n.body):
                for x in dfs(st):
                    if isinstance(x, ast.Name) and isinstance(getattr(x, 'ctx', None), ast.Store):
                        lren.setdefault(x.id, 'n%d_%d' % (_DEPTH[0], len(lren)))

            def lalpha(t):
                t = _re.sub(r'_(acc|elem)_(\w+?)\b', lambda m: '_%s_%s' % (m.group(1), lren.get(m.group(2), m.group(2))), t)
                t = _re.sub(r'(^|; |\|\| )(\w+) :=', lambda m: '%s%s :=' % (m.group(1), lren.get(m.group(2), m.group(2))), t)
                return _re.sub(r'_h\d+_(\w+)', lambda m: '_h_%s' % lren.get(m.group(1), m.group(1)), t)
            parts = [lalpha(x) for x in parts]
            btxt = '{ ' + ' | '.join(sorted(parts)) + ' }'
        except sympath.Unsupported:
            btxt = None
        finally:
            _DEPTH[0] -= 1
    if btxt is None:
        btxt = ' ; '.join(src_of(st).replace('\n', ' ') for st in body) if body else 'pass'
    if isinstance(n, ast.While):
        return 'loop while %s do %s' % (_test_text(n.test, lambda e: src_of(e)) if btxt == 'pass' or not btxt.startswith('{') else '..', btxt)
    if isinstance(n, ast.For):
        it = n.iter
        try:
            import copy as _copy
            from .shape import _Sub
            it = _Sub({k: q.resolve(v, objects=False) for k, v in q.env.items()}, 1).visit(_copy.deepcopy(n.iter))
        except Exception:
            pass
        return 'loop for each of %s do %s' % (r(it), btxt)
    return 'block ' + type(n).__name__


def _render(q):
    """effects and result of a path with positional references: `__i` is the value of the i-th effect (a call), `old<t>(e)` is
    the value expression e had before effect t (a snapshot).  Everything else is read at the point where it appears:
    an effect's operands just before the effect, the result at the end."""
    evs = [(i, sym, n) for i, (sym, n, _) in enumerate(q.events) if sym.startswith('_c') or sym == '=' or sym.startswith('_loop') or sym == '@new']
    pos = {}            # event index -> effect number
    for k, (i, sym, n) in enumerate(evs):
        pos[i] = k
    symno = {sym: pos[i] for i, sym, n in evs if sym.startswith('_c')}

    def before(at):
        return sum(1 for i, _, _ in evs if i < at)

    def unaffected(val, t0, t1):
        """no effect numbered t0 .. t1-1 can change the value of expression val: they are all stores to fields val does not read"""
        reads = {n.attr for n in ast.walk(val) if isinstance(n, ast.Attribute)}
        subs = any(isinstance(n, ast.Subscript) for n in ast.walk(val))
        for k in range(t0, t1):
            i, sym, n = evs[k]
            if sym != '=':
                return False
            tg = n.targets[0]
            if isinstance(tg, ast.Attribute) and tg.attr not in reads:
                continue
            if isinstance(tg, ast.Subscript) and not subs and not any(isinstance(x, (ast.Name, ast.Attribute)) and src_of(x) == src_of(tg.value) for x in ast.walk(val)):
                continue
            return False
        return True

    class R(ast.NodeTransformer):
        def __init__(self, use, depth=8):
            self.use, self.depth = use, depth

        def visit_Name(self, node):
            if node.id.startswith('_o') and node.id[2:].isdigit():
                return ast.Name(id='obj%s' % node.id[2:], ctx=ast.Load())
            if node.id in symno:
                return ast.Name(id='__%d' % symno[node.id], ctx=ast.Load())
            if node.id.startswith('_c') and node.id[2:].isdigit():
                return ast.Name(id='outer_%d' % (int(node.id[2:]) % 1000), ctx=ast.Load())
            if node.id in q.snaps and self.depth > 0:
                nm, val, at = q.snaps[node.id]
                t = before(at)
                inner = R(t, self.depth - 1).visit(copy.deepcopy(val))
                if unaffected(val, t, self.use):
                    return ast.Name(id='%s' % canon(inner), ctx=ast.Load()) if isinstance(inner, (ast.Name, ast.Attribute, ast.Constant)) else inner
                return ast.Call(func=ast.Name(id='old%d' % t, ctx=ast.Load()), args=[inner], keywords=[])
            return node

    # in conditions a call result is spelled as the call itself (with #k when the same call text occurs again on the path)
    ctext = {}
    seen_txt = {}
    for k, (i, sym, n) in enumerate(evs):
        if sym.startswith('_c'):
            t = canon(R(k).visit(copy.deepcopy(n)))
            seen_txt[t] = seen_txt.get(t, 0) + 1
            ctext['__%d' % k] = t if seen_txt[t] == 1 else '%s#%d' % (t, seen_txt[t])

    class RC(ast.NodeTransformer):
        def visit_Name(self, node):
            if node.id in ctext:
                return ast.Name(id='<%s>' % ctext[node.id], ctx=ast.Load())
            return node

    def r(e, use=None):
        return canon(R(len(evs) if use is None else use).visit(copy.deepcopy(e)))
    eff = []
    for k, (i, sym, n) in enumerate(evs):
        if sym.startswith('_c'):
            eff.append('call ' + r(n, k))
        elif sym == '@new':
            eff.append('new obj%s = %s' % (n.targets[0].id[2:], r(n.value, k)))
        elif sym == '=':
            eff.append('store %s = %s' % (r(n.targets[0], k), r(n.value, k)))
        else:
            eff.append(_loop_text(q, n, lambda e, k=k: r(e, k)))
    def rbool(e):
        """a returned comparison is spelled canonically (a >= b == not a < b)"""
        x = R(len(evs)).visit(copy.deepcopy(e))
        if isinstance(x, ast.Compare) or (isinstance(x, ast.UnaryOp) and isinstance(x.op, ast.Not)):
            k, v = canon_atom(src_of(x), True)
            return k if v else 'not (%s)' % k
        return canon(x)
    ret = rbool(q.ret) if q.ret is not None else (r(q.raised) if q.raised is not None else 'None')
    conds = []
    for s_, pol in q.conds:
        try:
            e = ast.parse(s_.split(STALE)[0], mode='eval').body
        except SyntaxError:
            continue
        # a test is spelled as of the moment it was made (snapshots older than the test still show as old<t>(..))
        t_ = q.ctime.get(s_.split(STALE)[0], q.ctime.get(s_, None))
        conds.append((R(before(t_) if t_ is not None else len(evs)).visit(e), pol))
    _render.ctext = ctext
    return conds, eff, ret


def same_class_getter(call, g):
    """inlining filter: only `return <expr>` methods of the same class called on self (self.eof(), self.peek())"""
    return g.cls is not None


def cases(project, func, pure=(), inline=False, select=None, unroll=False):
    _CTX.append((project, func))
    try:
        return _cases(project, func, pure, inline, select, unroll)
    finally:
        _CTX.pop()


def _conds_of(rconds):
    """canonical atoms of a rendered path; call results are spelled as the calls themselves (after canonicalisation)"""
    import re as _re
    ctext = getattr(_render, 'ctext', {})
    conds = {}
    bad = False
    for e, pol in rconds:
        k, v = canon_atom(src_of(e), pol)
        k = _re.sub(r'(?<![\w.])__(\d+)(?!\w)', lambda m: '<%s>' % ctext.get('__' + m.group(1), '__' + m.group(1)), k)
        if conds.get(k, v) != v:
            bad = True
        conds[k] = v
    return conds, bad


def _cases(project, func, pure=(), inline=False, select=None, unroll=False):
    paths = sympath.feasible(sympath.summaries(project, func, inline=inline, pure=pure, select=select, unroll=unroll, named_constants=True))
    out = []
    for q in paths:
        rconds, eff, ret = _render(q)
        conds, bad = _conds_of(rconds)
        if bad:
            continue
        out.append(Case(conds, ret, tuple(eff), q.exit, q))
    return out


def check(project, func, rows, **kw):
    """rows: [(partial assignment {canonical atom: bool}, expected outcome string)].
    -> ('ok', n) | ('differs', [(row assignment, expected, Case)]) | ('unknown', reason)"""
    try:
        cs = cases(project, func, **kw)
    except sympath.Unsupported as e:
        return 'unknown', str(e)
    if not cs:
        return 'unknown', 'no feasible path'
    st, det = check_rows([(c.conds, c.outcome()) for c in cs], [(dict(a), w) for a, w in rows])
    if st == 'differs':
        out = []
        for wc, wo, hc, ho in det:
            c = next(c for c in cs if c.conds == hc and c.outcome() == ho)
            out.append((wc, wo, c))
        return 'differs', out
    return st, det


# ---------------------------------------------------------------------- segmented tables (functions with top-level loops)
def _cases_of_paths(paths):
    out = []
    for q in paths:
        rconds, eff, ret = _render(q)
        conds, bad = _conds_of(rconds)
        if not bad:
            out.append(Case(conds, ret, tuple(eff), q.exit, q))
    return out


def _env_suffix(case, names, order=None):
    """values of the loop-carried locals at the end of a segment path, as a canonical string (ordered by canonical name)"""
    q = case.path
    parts = []
    for n in sorted(names, key=(lambda x: (order.index(x) if order and x in order else 999, x))):
        if n in q.env:
            v = q.resolve(q.env[n], objects=False)
            parts.append('%s := %s' % (n, canon(v).replace('_o', 'obj') if False else canon(v)))
    return ' ; '.join(parts)


def _enumerate_bound(loop, env):
    """`for i, x in enumerate(xs)` / `for i in range(len(xs))`: inside the body  i < len(xs)  holds by construction"""
    if not isinstance(loop, ast.For):
        return ()
    it = loop.iter
    idx = seq = None
    if isinstance(it, ast.Call) and isinstance(it.func, ast.Name) and it.func.id == 'enumerate' and len(it.args) == 1 and not it.keywords \
            and isinstance(loop.target, ast.Tuple) and len(loop.target.elts) == 2 and isinstance(loop.target.elts[0], ast.Name):
        idx, seq = loop.target.elts[0].id, it.args[0]
    elif isinstance(it, ast.Call) and isinstance(it.func, ast.Name) and it.func.id == 'range' and len(it.args) == 1 and isinstance(loop.target, ast.Name) \
            and isinstance(it.args[0], ast.Call) and isinstance(it.args[0].func, ast.Name) and it.args[0].func.id == 'len' and len(it.args[0].args) == 1:
        idx, seq = loop.target.id, it.args[0].args[0]
    if idx is None or idx not in env:
        return ()
    from .shape import _Sub
    seq2 = _Sub({k: v for k, v in env.items()}, 1).visit(copy.deepcopy(seq))
    return (('%s < len(%s)' % (src_of(env[idx]), src_of(seq2)), True),)


def _replace_breaks(stmts, tail):
    """the statement list with every `break` of *this* loop (not of nested loops) replaced by a copy of `tail`"""
    out = []
    for st in stmts:
        if isinstance(st, ast.Break):
            out += [copy.deepcopy(t) for t in tail]
            continue
        if isinstance(st, (ast.For, ast.While, ast.FunctionDef, ast.ClassDef)):
            out.append(st)
            continue
        st = copy.copy(st)
        for field in ('body', 'orelse', 'finalbody'):
            b = getattr(st, field, None)
            if isinstance(b, list) and b and isinstance(b[0], ast.stmt):
                setattr(st, field, _replace_breaks(b, tail))
        if isinstance(st, ast.Try):
            hs = []
            for h in st.handlers:
                h = copy.copy(h)
                h.body = _replace_breaks(h.body, tail)
                hs.append(h)
            st.handlers = hs
        out.append(st)
    return out


def segments(project, func, inline=True, select=None):
    """[(label, [Case], carried names)]: the top-level statement list of the normal form cut at its top-level loops:
    'pre' (before the first loop), 'iter<k>' (one generic iteration of loop k; the locals the loop assigns are symbolic
    `_acc_x`, loop-invariant locals keep the expressions they were bound to before the loop; the loop test is evaluated
    first), 'post<k>' (statements after loop k, the locals loops assigned symbolic as `_fin_x`)"""
    from . import norm
    node = norm.nf(project, func, select=select) if select is not None else norm.nf(project, func, inline=inline)
    body = [st for st in node.body if not (isinstance(st, ast.Expr) and isinstance(st.value, ast.Constant))]
    out = []
    cut = [i for i, st in enumerate(body) if isinstance(st, (ast.For, ast.While))]

    def names_in(stmts):
        return {n.id for st in stmts for n in ast.walk(st) if isinstance(n, ast.Name) and isinstance(n.ctx, ast.Store)}
    start = 0
    env = {}
    k = 0
    looped = set()
    for ci in cut + [None]:
        blk = body[start:ci] if ci is not None else body[start:]
        label = 'pre' if k == 0 else 'post%d' % k
        paths = sympath.feasible(sympath.block_summaries(project, func, blk, env=dict(env), ncall0=100 * k, named_constants=True))
        cs = _cases_of_paths(paths)
        out.append((label, cs, sorted(looped & names_in(blk))))
        if ci is None:
            break
        # bindings that every path falling through to the loop agrees on (resolved: calls and snapshots spelled out)
        through = [q for q in paths if q.exit == 'end']
        common = {}
        if through:
            for n_ in set.intersection(*[set(q.env) for q in through]):
                vals = {src_of(q.resolve(q.env[n_], objects=False)) for q in through}
                if len(vals) == 1:
                    common[n_] = through[0].resolve(through[0].env[n_], objects=False)
        lp = body[ci]
        k += 1
        carried = names_in([lp])
        looped |= carried
        ienv = dict(common)
        for n_ in carried:
            ienv[n_] = ast.Name(id='_acc_' + n_, ctx=ast.Load())
        stmts = list(lp.body)
        merged_tail = False
        if isinstance(lp, ast.While):
            # the loop test guards the iteration: `if not test: break` first
            stmts = [ast.If(test=ast.UnaryOp(op=ast.Not(), operand=lp.test), body=[ast.Break()], orelse=[])] + stmts
            if ci == cut[-1] and not lp.orelse:
                # last loop: every way out of it (test false, break) continues with the statements after the loop, so these are
                # executed as the tail of the leaving path: `break` + `return x` after the loop and `return x` inside it are one case
                stmts = _replace_breaks(stmts, list(body[ci + 1:]) + [ast.Return(value=None)])
                merged_tail = True
        else:
            for t in ast.walk(lp.target):
                if isinstance(t, ast.Name):
                    ienv[t.id] = ast.Name(id='_elem_' + t.id, ctx=ast.Load())
        ipaths = sympath.feasible(sympath.block_summaries(project, func, stmts, env=ienv, ncall0=100 * k + 50, named_constants=True,
                                                          assume=_enumerate_bound(lp, ienv)))
        out.append(('iter%d' % k, _cases_of_paths(ipaths), sorted(carried)))
        if merged_tail:
            break
        env = dict(common)
        for n_ in looped:
            env[n_] = ast.Name(id='_fin_' + n_, ctx=ast.Load())
        start = ci + 1
    return out


def local_count(project, func, inline=True, select=None):
    """number of distinct local names the normal form assigns (a refactoring that introduces a tracking variable changes it)"""
    from . import norm
    node = norm.nf(project, func, select=select) if select is not None else norm.nf(project, func, inline=inline)
    return len({n.id for n in ast.walk(node) if isinstance(n, ast.Name) and isinstance(n.ctx, ast.Store)})


def table_rows(project, func, **kw):
    _CTX.append((project, func))
    try:
        return _table_rows(project, func, **kw)
    finally:
        _CTX.pop()


def _table_rows(project, func, **kw):
    """[(label, [(conds, outcome)])]: the segmented decision table of a function.  The values the loop-carried locals have at
    the end of a segment path are appended to its outcome (only for locals that a later segment / iteration actually reads);
    local names are replaced by v0, v1, .. in the order of their first assignment, so renaming locals changes nothing."""
    import re as _re
    segs = segments(project, func, **kw)
    # which symbolic locals are ever read?
    text = []
    for label, cs, names in segs:
        for c in cs:
            text.append(' '.join(list(c.conds) + [c.outcome()]))
    blob = ' '.join(text)
    used = set(_re.findall(r'_(?:acc|fin|elem)_(\w+)', blob))
    # the tails may themselves read symbolic locals
    changed = True
    tails = {}
    while changed:
        changed = False
        for label, cs, names in segs:
            for c in cs:
                t = _env_suffix(c, [n for n in names if n in used])
                tails[(label, id(c))] = t
                more = set(_re.findall(r'_(?:acc|fin|elem)_(\w+)', t)) - used
                if more:
                    used |= more
                    changed = True
    order = []
    from . import norm
    node = norm.nf(project, func, select=kw.get('select')) if kw.get('select') is not None else norm.nf(project, func, inline=kw.get('inline', True))
    for n in ast.walk(node):
        pass
    stores = sorted(((n.lineno, n.col_offset, n.id) for n in ast.walk(node) if isinstance(n, ast.Name) and isinstance(n.ctx, ast.Store) and hasattr(n, 'lineno')))
    for _, _, nm in stores:
        if nm not in order:
            order.append(nm)
    # the tails may themselves read symbolic locals
    changed = True
    tails = {}
    while changed:
        changed = False
        for label, cs, names in segs:
            for c in cs:
                t = _env_suffix(c, [n for n in names if n in used], order)
                tails[(label, id(c))] = t
                more = set(_re.findall(r'_(?:acc|fin|elem)_(\\w+)', t)) - used
                if more:
                    used |= more
                    changed = True
    # canonical names only for the locals that are actually loop-carried and read: numbering is not disturbed by other locals
    order = [nm for nm in order if nm in used]
    ren = {nm: 'v%d' % i for i, nm in enumerate(order)}

    def alpha(t):
        t = _re.sub(r'_(acc|fin|elem)_(\w+)', lambda m: '_%s_%s' % (m.group(1), ren.get(m.group(2), m.group(2))), t)
        t = _re.sub(r'(^|; |\|\| )(\w+) :=', lambda m: '%s%s :=' % (m.group(1), ren.get(m.group(2), m.group(2))), t)
        t = _re.sub(r'_h\d+_(\w+)', lambda m: '_h_%s' % ren.get(m.group(1), m.group(1)), t)
        return t
    rows = []
    for label, cs, names in segs:
        r = []
        for c in cs:
            tail = tails.get((label, id(c)), '') if c.exit in ('end', 'continue', 'break') else ''
            if label.startswith('iter') and c.exit in ('continue', 'end'):
                o = ' ; '.join(list(_sorted_stores(c.effects)) + ['next'])         # falling off the body and `continue` both start the next iteration
            elif c.exit in ('continue', 'break'):
                o = ' ; '.join(list(_sorted_stores(c.effects)) + [c.exit])
            else:
                o = c.outcome()
            conds = {alpha(k): v for k, v in c.conds.items()}
            r.append((conds, alpha(o + (' || ' + tail if tail else ''))))
        rows.append((label, r))
    return rows


_INF = float('inf')


class Dom:
    """set of values an expression may take, as far as the tests of a row constrain it:
       'fin'  a finite set of tokens (truth values T/F)
       'lit'  (positive, literals): the value is one of / none of the given literals
       'iv'   a union of closed integer intervals (integer comparisons; for expressions not known to be integers the lattice
              is doubled: 2k stands for the point k, 2k+1 for the open interval (k, k+1))"""
    __slots__ = ('kind', 'val')

    def __init__(self, kind, val):
        self.kind, self.val = kind, val

    def __bool__(self):
        if self.kind == 'fin':
            return bool(self.val)
        if self.kind == 'lit':
            return bool(self.val[1]) or not self.val[0]
        return bool(self.val)

    def __and__(self, o):
        if self.kind != o.kind:
            return self            # different views of one key: nothing concluded
        if self.kind == 'fin':
            return Dom('fin', self.val & o.val)
        if self.kind == 'lit':
            (p1, s1), (p2, s2) = self.val, o.val
            if p1 and p2:
                return Dom('lit', (True, s1 & s2))
            if p1:
                return Dom('lit', (True, s1 - s2))
            if p2:
                return Dom('lit', (True, s2 - s1))
            return Dom('lit', (False, s1 | s2))
        out = []
        for lo1, hi1 in self.val:
            for lo2, hi2 in o.val:
                lo, hi = max(lo1, lo2), min(hi1, hi2)
                if lo <= hi:
                    out.append((lo, hi))
        return Dom('iv', tuple(sorted(set(out))))

    def __repr__(self):
        return 'Dom(%s, %r)' % (self.kind, self.val)


_T, _F = Dom('fin', frozenset('T')), Dom('fin', frozenset('F'))
_INT_LEAF_WORDS = _NUMERIC_WORDS | {'pos', 'start', 'end', 'offset', 'length', 'size', 'lineno'}


def _split_terms(text):
    """'+1 -1*len(a, b) +2*x' -> [(1, '1'), (-1, 'len(a, b)'), (2, 'x')] or None"""
    import re as _re
    terms, depth, cur = [], 0, ''
    for i, ch in enumerate(text):
        if ch in '([{':
            depth += 1
        elif ch in ')]}':
            depth -= 1
        if ch == ' ' and depth == 0 and _re.match(r'[+-]\d', text[i + 1:i + 3]):
            terms.append(cur)
            cur = ''
        else:
            cur += ch
    terms.append(cur)
    out = []
    for t in terms:
        m = _re.match(r'^([+-]\d+)(?:\*(.+))?$', t)
        if not m:
            return None
        out.append((int(m.group(1)), m.group(2) or '1'))
    return out


def _int_leaf(expr):
    import re as _re
    if expr.startswith(('len(', 'ord(', 'int(')) and expr.endswith(')'):
        return True
    if '*' in expr and '(' not in expr:
        return all(_int_leaf(x) for x in expr.split('*'))
    m = _re.search(r'([A-Za-z_]\w*)(\[[^\]]*\])?$', expr)
    if not m:
        return False
    w = m.group(1)
    for pre in ('_acc_', '_fin_'):
        if w.startswith(pre):
            w = w[len(pre):]
    return w in _INT_LEAF_WORDS or w.split('_')[-1] in _INT_LEAF_WORDS


def atom_domain(atom, pol):
    """(key, allowed values).  An integer comparison `c + V < 0` / `> 0` / `== 0` constrains the value of the variable part V to
    an interval, so tests that differ in the operator or in a constant offset (a < b, a <= b, a == b, a < b + 1, a == 2) all
    talk about the same key; `e == <literal>` / `e in (<literals>)` constrain the value of e to a set of literals (two different
    literals exclude each other); any other atom is a boolean."""
    import re as _re
    m = _re.match(r'^(.*) (<|>|==) 0$', atom)
    if m and _re.match(r'^[+-]\d', m.group(1)):
        terms = _split_terms(m.group(1))
        if terms:
            c = sum(k for k, e in terms if e == '1')
            var = [(k, e) for k, e in terms if e != '1']
            rel = m.group(2)
            if var:
                if var[0][0] < 0:
                    var = [(-k, e) for k, e in var]
                    c = -c
                    rel = {'<': '>', '>': '<', '==': '=='}[rel]
                k0 = -c                                   # V rel k0
                # integers: every leaf is known to be one, or the expression is compared with a length (an index / a size)
                ints = all(_int_leaf(e) for _, e in var) or any(e.startswith('len(') and e.endswith(')') for _, e in var)
                if ints:
                    pt, below, above = k0, k0 - 1, k0 + 1
                else:
                    pt, below, above = 2 * k0, 2 * k0 - 1, 2 * k0 + 1
                if rel == '<':
                    yes, no = ((-_INF, below),), ((pt, _INF),)
                elif rel == '>':
                    yes, no = ((above, _INF),), ((-_INF, pt),)
                else:
                    yes, no = ((pt, pt),), ((-_INF, below), (above, _INF))
                return 'int(%s)' % ' '.join('%+d*%s' % (k, e) for k, e in var), Dom('iv', yes if pol else no)
    try:
        e = ast.parse(atom, mode='eval').body
    except SyntaxError:
        e = None
    if isinstance(e, ast.Compare) and len(e.ops) == 1:
        l, r, op = e.left, e.comparators[0], e.ops[0]

        def lit(x):
            return isinstance(x, ast.Constant) and isinstance(x.value, (str, bytes))
        if isinstance(op, ast.Eq) and lit(l) != lit(r):
            c, other = (l, r) if lit(l) else (r, l)
            return 'val(%s)' % src_of(other), Dom('lit', (pol, frozenset([repr(c.value)])))
        if isinstance(op, ast.In) and isinstance(r, (ast.Tuple, ast.List, ast.Set)) and r.elts and all(lit(x) for x in r.elts):
            return 'val(%s)' % src_of(l), Dom('lit', (pol, frozenset(repr(x.value) for x in r.elts)))
    return atom, (_T if pol else _F)


def _implied_domains(conds):
    """constraints that follow from the tests of a row but are not tests themselves: `a in S` holds only for a non-empty S"""
    out = {}
    for k, v in conds.items():
        if not v:
            continue
        try:
            e = ast.parse(k, mode='eval').body
        except SyntaxError:
            continue
        if isinstance(e, ast.Compare) and len(e.ops) == 1 and isinstance(e.ops[0], ast.In) and isinstance(e.comparators[0], (ast.Name, ast.Attribute)):
            out[src_of(e.comparators[0])] = _T
    return out


def _domains(conds, implied=False):
    out = {}
    for k, v in conds.items():
        key, allowed = atom_domain(k, v)
        out[key] = (out[key] & allowed) if key in out else allowed
    if implied:
        for key, allowed in _implied_domains(conds).items():
            out[key] = (out[key] & allowed) if key in out else allowed
    return out


def _leaves(key):
    import re as _re
    return set(_re.findall(r'_(?:acc|fin)_\w+', key))


def _fresh_input_atom(key, fresh):
    """the test `key` is a pure expression over inputs and reads an input that the reviewed table mentions nowhere.
    fresh = {'params': names of the function's own parameters, 'text': every condition and outcome of the reviewed table}"""
    import re as _re
    if key.startswith('int(') or '<' in key and _re.search(r'<[A-Za-z_]', key) or _re.search(r'_(?:acc|fin|h\d*|el\w*)_|\bobj\d+|\bold\d*\(|__\d+', key):
        return False
    try:
        e = ast.parse(key, mode='eval').body
    except SyntaxError:
        return False
    text = fresh['text']
    params = {q for q in fresh['params'] if _re.search(r'(?<![\w.])%s(?!\w)' % _re.escape(q), text)}      # the reviewed function has it too
    bound = {n.id for n in ast.walk(e) if isinstance(n, ast.Name) and isinstance(n.ctx, ast.Store)}
    hit = False
    for n in ast.walk(e):
        if isinstance(n, ast.Call):
            fn = n.func
            name = fn.id if isinstance(fn, ast.Name) else (fn.attr if isinstance(fn, ast.Attribute) else None)
            if name not in ('any', 'all', 'len', 'isinstance', 'bool', 'str', 'int', 'get', 'lower', 'upper', 'startswith', 'endswith', 'strip', 'min', 'max', 'sorted', 'list', 'tuple', 'set'):
                return False            # a project function: its result is not an input
        if isinstance(n, ast.Name) and isinstance(n.ctx, ast.Load) and n.id not in params and n.id not in bound \
                and n.id not in ('any', 'all', 'len', 'isinstance', 'bool', 'str', 'int', 'min', 'max', 'sorted', 'list', 'tuple', 'set', 'True', 'False', 'None', 'dict', 'float', 'bytes'):
            return False                # a local / closure / global value
        if isinstance(n, ast.Attribute) and isinstance(n.value, ast.Name) and n.value.id in params:
            path = '%s.%s' % (n.value.id, n.attr)
            if not _re.search(r'(?<![\w.])%s(?!\w)' % _re.escape(path), text):
                hit = True
        if isinstance(n, ast.Call) and isinstance(n.func, ast.Attribute) and n.func.attr == 'get' and n.args and isinstance(n.args[0], ast.Constant) \
                and isinstance(n.args[0].value, str) and repr(n.args[0].value) not in text and '"%s"' % n.args[0].value not in text:
            root = n.func.value
            while isinstance(root, ast.Attribute):
                root = root.value
            if isinstance(root, ast.Name) and root.id in params:
                hit = True
    return hit


def _split_top(text, sep):
    """split at `sep` outside brackets and string literals"""
    out, depth, cur, q, i = [], 0, '', None, 0
    while i < len(text):
        ch = text[i]
        if q:
            cur += ch
            if ch == '\\' and i + 1 < len(text):
                cur += text[i + 1]
                i += 1
            elif ch == q:
                q = None
        elif ch in '\'"':
            q = ch
            cur += ch
        else:
            if ch in '([{':
                depth += 1
            elif ch in ')]}':
                depth -= 1
            if depth == 0 and text.startswith(sep, i):
                out.append(cur)
                cur = ''
                i += len(sep)
                continue
            cur += ch
        i += 1
    out.append(cur)
    return out


def _unwrap_unit_linear(o):
    """L[+1*x] (a sum with the single term x) is x"""
    out, i = '', 0
    while True:
        j = o.find('L[', i)
        if j < 0 or (j > 0 and (o[j - 1].isalnum() or o[j - 1] == '_')):
            if j < 0:
                return out + o[i:]
            out += o[i:j + 2]
            i = j + 2
            continue
        depth, k = 0, j + 1
        while k < len(o):
            if o[k] in '([{':
                depth += 1
            elif o[k] in ')]}':
                depth -= 1
                if depth == 0:
                    break
            k += 1
        body = o[j + 2:k]
        if body.startswith('+1*') and len(_split_top(body, ' ')) == 1 and k < len(o):
            out += o[i:j] + _unwrap_unit_linear(body[3:])
        else:
            out += o[i:j] + 'L[' + _unwrap_unit_linear(body) + ']'
        i = k + 1


def _drop_steps(o, pred):
    """remove the steps `pred` selects; later positional references `__k` are renumbered"""
    import re as _re
    bits = o.split(' || ')
    steps = _split_top(bits[0], ' ; ')
    drop = [i for i, t in enumerate(steps) if pred(t.strip())]
    if not drop:
        return o

    def renum(t):
        def f(m):
            k = int(m.group(1))
            return '__%d' % (k - sum(1 for d in drop if d < k))
        return _re.sub(r'(?<![\w])__(\d+)\b', f, t)
    steps = [renum(t) for i, t in enumerate(steps) if i not in drop]
    return ' || '.join([' ; '.join(steps)] + [renum(b) for b in bits[1:]])


def _is_noop_store(t):
    """`store X = X` (the value X holds at that moment) changes nothing"""
    return t.startswith('store ') and ' = ' in t and t[6:].split(' = ', 1)[0] == t[6:].split(' = ', 1)[1]


def _is_new_field_store(t):
    """a store into a field whose name occurs nowhere in the reviewed tree: no reviewed code can read it (additive API)"""
    import re as _re
    from . import names
    if not t.startswith('store ') or ' = ' not in t:
        return False
    m = _re.fullmatch(r'[A-Za-z_][\w.]*\.([A-Za-z_]\w*)', t[6:].split(' = ', 1)[0])
    ids = names.reviewed_identifiers()
    # not the variables of the enclosing function (`_closure_.x`): how shared state is represented is judged as such
    return bool(m) and bool(ids) and m.group(1) not in ids and not t[6:].startswith('_closure_.')


def norm_outcome(o, analysed=False):
    """spelling differences of an outcome that change nothing (for the analysed tree also: stores into new fields)"""
    o = _unwrap_unit_linear(o)
    if 'store old' in o:
        # the object a store goes into is the same object before and after earlier steps: old<t>(config.cache)[k] is config.cache[k]
        import re as _re
        bits = o.split(' || ')
        steps = _split_top(bits[0], ' ; ')
        steps = [(('store ' + _re.sub(r'\bold\d+\(([^()]*)\)', r'\1', t.strip()[6:].split(' = ', 1)[0]) + ' = ' + t.strip()[6:].split(' = ', 1)[1])
                  if t.strip().startswith('store old') and ' = ' in t else t) for t in steps]
        o = ' || '.join([' ; '.join(x.strip() for x in steps)] + bits[1:])
    if 'store ' in o:
        o = _drop_steps(o, (lambda t: _is_noop_store(t) or _is_new_field_store(t)) if analysed else _is_noop_store)
    return o


def check_rows(have, want, same_locals=False, fresh=None):
    """compare the rows of one segment with the reviewed ones
       -> ('ok', n) | ('differs', [(want conds, want outcome, have conds, have outcome)]) | ('unknown', why)
    Both tables partition the same space of assignments.  A path of the analysed tree and a reviewed row that are
    consistent (no key constrained to disjoint values) describe at least one common assignment, so their outcomes must
    agree; this is only concluded when the analysed path tests nothing outside the reviewed vocabulary of keys (a new
    atom may be an equivalent spelling of an old one, so nothing is concluded then).  Integer comparisons are keyed by the
    compared difference, so `a < b`, `a <= b` and `a == b` are tests of the same key."""
    vocab = set()
    for wc, _ in want:
        vocab |= set(_domains(wc))
    hv = set()
    for hc, _ in have:
        hv |= set(_domains(hc))
    W = [(_domains(wc, True), wc, wo) for wc, wo in want]
    H = [(_domains(hc, True), hc, ho) for hc, ho in have]
    W = [w for w in W if all(w[0].values())]        # rows whose tests contradict each other describe no input
    if hv - vocab and same_locals:
        # An integer test on a loop-carried local that no reviewed test reads (and no other test of the row): for every reviewed case
        # and either outcome of the test there is a state of the symbolic locals that satisfies both, so the row is compared
        # without it.  Only when the function has exactly the reviewed locals (no new tracking variable, whose value would be tied
        # to the others by a loop invariant).
        wleaves = set()
        for k in vocab:
            wleaves |= _leaves(k)
        H2 = []
        for hd, hc, ho in H:
            hd2 = dict(hd)
            for k in list(hd):
                if k in vocab or not k.startswith('int('):
                    continue
                mine = _leaves(k) - wleaves
                others = set()
                for k2 in hd:
                    if k2 != k:
                        others |= _leaves(k2)
                if mine - others:
                    del hd2[k]
            H2.append((hd2, hc, ho))
        H = H2
        hv = set()
        for hd, _, _ in H:
            hv |= set(hd)
    projected = set()
    if hv - vocab and fresh is not None:
        # A test that reads an input the reviewed function never consulted (a field of a parameter, an option key that occurs
        # nowhere in the reviewed table): no reviewed test constrains that input, so for every reviewed case either outcome of the
        # new test is possible -- the path is compared without it.  (A test that only mentions reviewed inputs may be another
        # spelling of a reviewed test: nothing is concluded from it.)
        for k in sorted(hv - vocab):
            if _fresh_input_atom(k, fresh):
                projected.add(k)
        if projected:
            H = [({k: v for k, v in hd.items() if k not in projected}, hc, ho) for hd, hc, ho in H]
            hv -= projected
    # A path that tests something outside the reviewed vocabulary is not compared (the new test may be another spelling of a
    # reviewed one); the other paths describe exactly the inputs that satisfy their reviewed tests and are compared as usual.
    foreign = hv - vocab
    partial = bool(foreign or projected)

    def consistent(a, b):
        return all((a[k] & b[k]) for k in a if k in b)
    differs = []
    outside = None
    for hd, hc, ho in H:
        if any(not v for v in hd.values()):
            continue            # contradictory path
        if foreign & set(hd):
            continue
        cons = [(wd, wc, wo) for wd, wc, wo in W if consistent(hd, wd)]
        if not cons:
            outside = outside or hc
            continue
        if partial and any(not set(wd) <= set(hd) for wd, _, _ in cons):
            # Some paths of this function could not be compared (or a test was projected away): the keys of the two tables
            # may then be spelled differently for the same fact (another snapshot numbering after a helper was extracted), so
            # a path is only compared with reviewed cases all of whose tests it makes itself.
            continue
        for wd, wc, wo in cons:
            if wo != ho and norm_outcome(wo) != norm_outcome(ho, True):
                differs.append((wc, wo, hc, ho))
                break
    if differs:
        return 'differs', differs
    if foreign:
        return 'unknown', 'tests outside the reviewed vocabulary: %s' % sorted(foreign)[:4]
    if outside is not None:
        return 'unknown', 'path outside the reviewed cases: %s' % outside
    for wd, wc, wo in W:
        if not any(consistent(hd, wd) for hd, hc, ho in H):
            return 'unknown', 'reviewed case not realised: %s -> %s' % (wc, wo)
    return 'ok', len(have)
