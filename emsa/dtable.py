"""Decision tables of small functions, read off their symbolic path summaries.

`cases(project, func)` lists, for every feasible path, the assumed atoms (in a
canonical spelling) and the outcome: returned expression, stores and calls in
execution order (all over the inputs of the function, locals substituted).
`check(...)` compares that table with a specification given as rows
(partial assignment of atoms -> expected outcome): every path consistent with
a row must have the row's outcome and every path must fall under some row.
The comparison is insensitive to the names of locals, to if/else vs conditional
expressions, guard clauses, the order of independent tests and to how strings
and integer sums are spelled ('%s at %d' % (m, p + 1) == m + ' at ' + str(..)
is NOT attempted: only %-format, + and f-strings over the same pieces agree).
"""
import ast
import copy

from .core import src_of
from .linear import linear, show
from . import sympath
from .shape import strparts


def canon_atom(src, pol):
    """canonical spelling of a test: comparisons are oriented with < and ==, `is not`/`!=`/`>=` become negated atoms"""
    src = src.split('@')[0]
    try:
        e = ast.parse(src, mode='eval').body
    except SyntaxError:
        return src, pol
    while isinstance(e, ast.UnaryOp) and isinstance(e.op, ast.Not):
        e, pol = e.operand, not pol
    if isinstance(e, ast.Compare) and len(e.ops) == 1:
        l, r, op = e.left, e.comparators[0], type(e.ops[0])
        if op is ast.Gt:            # a > b  ==  b < a
            l, r, op = r, l, ast.Lt
        elif op is ast.GtE:         # a >= b ==  not a < b
            op, pol = ast.Lt, not pol
        elif op is ast.LtE:         # a <= b ==  not b < a
            l, r, op, pol = r, l, ast.Lt, not pol
        elif op is ast.NotEq:
            op, pol = ast.Eq, not pol
        elif op is ast.IsNot:
            op, pol = ast.Is, not pol
        elif op is ast.NotIn:
            op, pol = ast.In, not pol
        if op is ast.Eq and src_of(l) > src_of(r):
            l, r = r, l
        if op is ast.Lt:
            # integer comparison: move everything to one side when linear:  a < b  ->  canonical "a - b < 0" spelled with sorted terms
            d = linear(ast.BinOp(left=l, op=ast.Sub(), right=r))
            if d is not None and d:
                return '%s < 0' % show(d), pol
        sym = {ast.Lt: '<', ast.Eq: '==', ast.Is: 'is', ast.In: 'in'}.get(op)
        if sym:
            return '%s %s %s' % (canon(l), sym, canon(r)), pol
    return canon(e), pol


class _Canon(ast.NodeTransformer):
    def visit_BinOp(self, node):
        parts = strparts(node)
        if parts is not None and len(parts) > 1 and any(isinstance(x, str) for x in parts):
            txt = 'S[' + ' '.join(repr(x) if isinstance(x, str) else '{%s}' % canon(ast.parse(x[1], mode='eval').body) for x in parts) + ']'
            return ast.Name(id=txt, ctx=ast.Load())
        if isinstance(node.op, (ast.Add, ast.Sub)):
            lin = linear(node)
            if lin is not None:
                return ast.Name(id='L[%s]' % show(lin), ctx=ast.Load())
        self.generic_visit(node)
        return node

    def visit_JoinedStr(self, node):
        parts = strparts(node)
        if parts is not None:
            txt = 'S[' + ' '.join(repr(x) if isinstance(x, str) else '{%s}' % canon(ast.parse(x[1], mode='eval').body) for x in parts) + ']'
            return ast.Name(id=txt, ctx=ast.Load())
        return node


def canon(e):
    if e is None:
        return 'None'
    return src_of(_Canon().visit(copy.deepcopy(e)))


def _sorted_stores(effects):
    """consecutive stores to different targets commute: order them by target"""
    out, run = [], []
    for e in list(effects) + [None]:
        if e is not None and e.startswith('store '):
            run.append(e)
            continue
        tg = [x.split(' = ')[0] for x in run]
        out += sorted(run) if len(set(tg)) == len(tg) else run
        run = []
        if e is not None:
            out.append(e)
    return out


class Case:
    def __init__(self, conds, ret, effects, exit, path):
        self.conds, self.ret, self.effects, self.exit, self.path = conds, ret, effects, exit, path

    def skeleton(self):
        """kinds of the effects without operands: 'call f' / 'store target' / exit kind"""
        out = []
        for e in _sorted_stores(self.effects):
            if e.startswith('store '):
                out.append(e.split(' = ')[0])
            elif e.startswith('call '):
                out.append('call')
            else:
                out.append(e.split(' ')[0])
        out.append(self.exit)
        return out

    def outcome(self):
        out = _sorted_stores(self.effects)
        if self.exit == 'return':
            out.append('ret ' + self.ret)
        elif self.exit == 'raise':
            out.append('raise ' + self.ret)
        elif self.exit == 'end':
            out.append('ret None')
        return ' ; '.join(out)

    def cond_str(self):
        return ' and '.join(('%s' if v else 'not (%s)') % k for k, v in sorted(self.conds.items())) or 'always'


def _test_text(e, r):
    if isinstance(e, ast.BoolOp):
        return '(' + (' and ' if isinstance(e.op, ast.And) else ' or ').join(_test_text(v, r) for v in e.values) + ')'
    if isinstance(e, ast.UnaryOp) and isinstance(e.op, ast.Not):
        return 'not ' + _test_text(e.operand, r)
    k, v = canon_atom(r(e), True)
    return k if v else 'not (%s)' % k


def _loop_text(q, n, r):
    """canonical text of a loop that the summary does not enter: kind, test / iterable, and the statements of the body"""
    body = [st for st in n.body if not isinstance(st, ast.Pass)]
    btxt = ' ; '.join(src_of(st).replace('\n', ' ') for st in body) if body else 'pass'
    if isinstance(n, ast.While):
        return 'loop while %s do %s' % (_test_text(n.test, lambda e: src_of(e)), btxt)
    if isinstance(n, ast.For):
        return 'loop for %s in %s do %s' % (src_of(n.target), src_of(n.iter), btxt)
    return 'block ' + type(n).__name__


def _render(q):
    """effects and result of a path with positional references: `__i` is the value of the i-th effect (a call), `old<t>(e)` is
    the value expression e had before effect t (a snapshot).  Everything else is read at the point where it appears:
    an effect's operands just before the effect, the result at the end."""
    evs = [(i, sym, n) for i, (sym, n, _) in enumerate(q.events) if sym.startswith('_c') or sym == '=' or sym.startswith('_loop')]
    pos = {}            # event index -> effect number
    for k, (i, sym, n) in enumerate(evs):
        pos[i] = k
    symno = {sym: pos[i] for i, sym, n in evs if sym.startswith('_c')}

    def before(at):
        return sum(1 for i, _, _ in evs if i < at)

    def unaffected(val, t0, t1):
        """no effect numbered t0 .. t1-1 can change the value of expression val: they are all stores to fields val does not read"""
        reads = {n.attr for n in ast.walk(val) if isinstance(n, ast.Attribute)}
        subs = any(isinstance(n, ast.Subscript) for n in ast.walk(val))
        for k in range(t0, t1):
            i, sym, n = evs[k]
            if sym != '=':
                return False
            tg = n.targets[0]
            if isinstance(tg, ast.Attribute) and tg.attr not in reads:
                continue
            if isinstance(tg, ast.Subscript) and not subs and not any(isinstance(x, (ast.Name, ast.Attribute)) and src_of(x) == src_of(tg.value) for x in ast.walk(val)):
                continue
            return False
        return True

    class R(ast.NodeTransformer):
        def __init__(self, use, depth=8):
            self.use, self.depth = use, depth

        def visit_Name(self, node):
            if node.id in symno:
                return ast.Name(id='__%d' % symno[node.id], ctx=ast.Load())
            if node.id in q.snaps and self.depth > 0:
                nm, val, at = q.snaps[node.id]
                t = before(at)
                inner = R(t, self.depth - 1).visit(copy.deepcopy(val))
                if unaffected(val, t, self.use):
                    return ast.Name(id='%s' % canon(inner), ctx=ast.Load()) if isinstance(inner, (ast.Name, ast.Attribute, ast.Constant)) else inner
                return ast.Call(func=ast.Name(id='old%d' % t, ctx=ast.Load()), args=[inner], keywords=[])
            return node

    def r(e, use=None):
        return canon(R(len(evs) if use is None else use).visit(copy.deepcopy(e)))
    eff = []
    for k, (i, sym, n) in enumerate(evs):
        if sym.startswith('_c'):
            eff.append('call ' + r(n, k))
        elif sym == '=':
            eff.append('store %s = %s' % (r(n.targets[0], k), r(n.value, k)))
        else:
            eff.append(_loop_text(q, n, lambda e, k=k: r(e, k)))
    def rbool(e):
        """a returned comparison is spelled canonically (a >= b == not a < b)"""
        x = R(len(evs)).visit(copy.deepcopy(e))
        if isinstance(x, ast.Compare) or (isinstance(x, ast.UnaryOp) and isinstance(x.op, ast.Not)):
            k, v = canon_atom(src_of(x), True)
            return k if v else 'not (%s)' % k
        return canon(x)
    ret = rbool(q.ret) if q.ret is not None else (r(q.raised) if q.raised is not None else 'None')
    conds = []
    for s_, pol in q.conds:
        try:
            e = ast.parse(s_.split('@')[0], mode='eval').body
        except SyntaxError:
            continue
        conds.append((R(len(evs)).visit(e), pol))
    return conds, eff, ret


def cases(project, func, pure=(), inline=False, select=None, unroll=False):
    paths = sympath.feasible(sympath.summaries(project, func, inline=inline, pure=pure, select=select, unroll=unroll))
    out = []
    for q in paths:
        rconds, eff, ret = _render(q)
        conds = {}
        bad = False
        for e, pol in rconds:
            k, v = canon_atom(src_of(e), pol)
            if conds.get(k, v) != v:
                bad = True
            conds[k] = v
        if bad:
            continue
        out.append(Case(conds, ret, tuple(eff), q.exit, q))
    return out


def check(project, func, rows, **kw):
    """rows: [(partial assignment {atom: bool}, expected outcome string)].
    -> (status, details)  status in 'ok' | 'differs' | 'unknown'
       differs: [(row assignment, expected, Case)] ; unknown: reason"""
    try:
        cs = cases(project, func, **kw)
    except sympath.Unsupported as e:
        return 'unknown', str(e)
    if not cs:
        return 'unknown', 'no feasible path'
    norm_rows = []
    for assign, want in rows:
        norm_rows.append((dict(assign), want))          # spec atoms are written in canonical form already
    differs = []
    covered = set()
    for a, want in norm_rows:
        hit = False
        for i, c in enumerate(cs):
            if all(c.conds.get(k, v) == v for k, v in a.items()):
                # consistent with the row; it belongs to the row only if it also *establishes* the row (all row atoms assumed) or the row is the only consistent one
                if all(k in c.conds for k in a):
                    hit = True
                    covered.add(i)
                    if c.outcome() != want:
                        differs.append((a, want, c))
        if not hit:
            # no path establishes the row: maybe the function does not test an atom the spec distinguishes -> take all consistent paths
            for i, c in enumerate(cs):
                if all(c.conds.get(k, v) == v for k, v in a.items()):
                    covered.add(i)
                    if c.outcome() != want:
                        differs.append((a, want, c))
    if differs:
        return 'differs', differs
    if len(covered) != len(cs):
        extra = [c for i, c in enumerate(cs) if i not in covered]
        return 'unknown', 'paths outside the specified cases: ' + ' | '.join('%s -> %s' % (c.cond_str(), c.outcome()) for c in extra[:3])
    return 'ok', len(cs)
