"""Rename map between the reviewed tree and the analysed tree.

The rules are anchored in the names of the reviewed tree (functions, classes, fields, constants).  A refactoring that renames
such an entity everywhere changes no behaviour; without help the anchor vanishes (exit 2) or, worse, a rule that recognises a
role by name no longer sees it.  This module finds renames *structurally* and maps them back before anything is analysed:

* every unit of the package (a top-level function, a method, the non-method part of a class body, the non-definition part of a
  module) has a **skeleton**: its syntax tree with every identifier blanked, and the sequence of the blanked identifiers
  (those at *definition positions* -- the name of a def / class, the target of a module- or class-level assignment, a
  `__slots__` entry, a `self.x = ..` store in `__init__` -- are marked);
* `tools/gentables.py` stores the skeleton hashes and identifier sequences of the reviewed tree in `rules/names_spec.json`;
* a unit of the analysed tree with the same skeleton (same module, same rank among equal skeletons; across modules only for
  skeletons that are unique) is the same code up to identifiers, so identifiers that differ at the same position are rename
  candidates `old -> new`;
* a candidate is accepted **globally** if it is consistent (old always becomes new, nothing else becomes new), `old` occurs
  nowhere in the analysed tree and `new` nowhere in the reviewed tree: replacing `new` by `old` everywhere is then an
  alpha-renaming of the whole package;
* a candidate seen at a definition position (so the *definition itself* is the reviewed one under a new name, not another
  entity substituted for it) is accepted **per module**: in every module where `new` does not occur in the reviewed tree and
  `old` does not occur in the analysed tree, and where the candidates of that module do not contradict it.

Nothing is guessed from spelling; a renamed entity whose definition was also edited is simply not mapped (its anchor then
vanishes as before).
"""
import ast
import hashlib
import json
import os

SPEC = os.path.join(os.path.dirname(os.path.abspath(__file__)), 'rules', 'names_spec.json')


class _Sk:
    def __init__(self):
        self.ids = []
        self.defs = []

    def add(self, name, is_def=False):
        if is_def:
            self.defs.append(len(self.ids))
        self.ids.append(name)


def _skel(node, sk, ctx):
    """skeleton text of node; identifiers appended to sk.  ctx: dict(level='module'|'class'|'func', slots=bool, init=bool)"""
    if isinstance(node, ast.AST):
        parts = [type(node).__name__]
        c = ctx
        if isinstance(node, ast.Assign) and any(isinstance(t, ast.Name) and t.id == '__slots__' for t in node.targets):
            c = dict(ctx, slots=True)
        if isinstance(node, (ast.FunctionDef, ast.AsyncFunctionDef)):
            sk.add(node.name, ctx['level'] in ('module', 'class'))
            parts.append('name=_')
            c = dict(ctx, level='func', init=(node.name == '__init__' and ctx['level'] == 'class'))
        elif isinstance(node, ast.ClassDef):
            sk.add(node.name, ctx['level'] == 'module')
            parts.append('name=_')
            c = dict(ctx, level='class')
        for name, value in ast.iter_fields(node):
            if name in ('lineno', 'col_offset', 'end_lineno', 'end_col_offset', 'ctx', 'type_comment', 'kind'):
                continue
            if isinstance(node, (ast.FunctionDef, ast.AsyncFunctionDef, ast.ClassDef)) and name == 'name':
                continue
            if isinstance(node, ast.Name) and name == 'id':
                is_def = isinstance(node.ctx, ast.Store) and ctx['level'] in ('module', 'class') and ctx.get('target')
                sk.add(value, bool(is_def))
                parts.append('id=_')
                continue
            if isinstance(node, ast.Attribute) and name == 'attr':
                is_def = isinstance(node.ctx, ast.Store) and ctx.get('init') and ctx.get('target') and isinstance(node.value, ast.Name) and node.value.id == 'self'
                sk.add(value, bool(is_def))
                parts.append('attr=_')
                continue
            if (isinstance(node, ast.arg) and name == 'arg') or (isinstance(node, ast.keyword) and name == 'arg') or (isinstance(node, ast.ExceptHandler) and name == 'name'):
                if value is None:
                    parts.append('%s=None' % name)
                else:
                    sk.add(value)
                    parts.append('%s=_' % name)
                continue
            if isinstance(node, ast.alias) and name in ('name', 'asname'):
                if value is None:
                    parts.append('%s=None' % name)
                else:
                    sk.add(value)
                    parts.append('%s=_' % name)
                continue
            if isinstance(node, (ast.Global, ast.Nonlocal)) and name == 'names':
                for v in value:
                    sk.add(v)
                parts.append('names=[%d]' % len(value))
                continue
            if c.get('slots') and isinstance(node, ast.Constant) and name == 'value' and isinstance(value, str) and value.isidentifier():
                sk.add(value, True)
                parts.append('value=_')
                continue
            if isinstance(node, ast.Expr) and isinstance(node.value, ast.Constant) and isinstance(node.value.value, str):
                parts.append('doc')              # docstrings and string statements do not matter
                continue
            cc = c
            if isinstance(node, (ast.Assign, ast.AnnAssign, ast.AugAssign)):
                cc = dict(c, target=(name in ('targets', 'target')))
            parts.append('%s=%s' % (name, _skel(value, sk, cc)))
        return '(' + ' '.join(parts) + ')'
    if isinstance(node, list):
        return '[' + ','.join(_skel(x, sk, ctx) for x in node) + ']'
    return repr(node)


def units_of(tree, modname):
    """[(module, kind, hash, [identifiers], [indices of definition positions])] in source order"""
    out = []

    def unit(kind, nodes, level):
        sk = _Sk()
        text = _skel(nodes, sk, {'level': level})
        out.append((modname, kind, hashlib.sha1(text.encode('utf-8')).hexdigest()[:16], sk.ids, sk.defs))
    top = [st for st in tree.body if not isinstance(st, (ast.FunctionDef, ast.ClassDef))]
    unit('module', top, 'module')
    for st in tree.body:
        if isinstance(st, ast.FunctionDef):
            unit('func', [st], 'module')
        elif isinstance(st, ast.ClassDef):
            body = [x for x in st.body if not isinstance(x, ast.FunctionDef)]
            hdr = ast.ClassDef(name=st.name, bases=st.bases, keywords=st.keywords, body=body, decorator_list=st.decorator_list)
            unit('class', [hdr], 'module')
            for x in st.body:
                if isinstance(x, ast.FunctionDef):
                    unit('method', [x], 'class')
    return out


def _ids_by_module(units):
    d = {}
    for m, _, _, ids, _ in units:
        d.setdefault(m, set()).update(ids)
    return d


def write_spec(trees, path=SPEC):
    units = []
    for m in sorted(trees):
        units += units_of(trees[m], m)
    with open(path, 'w') as f:
        json.dump({'units': [list(u) for u in units]}, f, separators=(',', ':'))


def rename_maps(trees, path=SPEC):
    """-> {module: {new name: old name}} accepted renames of the analysed trees relative to the reviewed spec"""
    if not os.path.exists(path):
        return {}
    spec = json.load(open(path))
    old_units = [tuple(u) for u in spec['units']]
    new_units = []
    for m in sorted(trees):
        new_units += units_of(trees[m], m)
    old_by_mod, new_by_mod = _ids_by_module(old_units), _ids_by_module(new_units)
    old_ids = set().union(*old_by_mod.values()) if old_by_mod else set()
    new_ids = set().union(*new_by_mod.values()) if new_by_mod else set()
    if old_ids == new_ids:
        return {}

    def index(units, by_module):
        d = {}
        for m, k, h, ids, defs in units:
            d.setdefault((m if by_module else None, k, h), []).append((m, ids, defs))
        return d
    pairs = {}          # module (analysed tree) -> {old: set(new)}
    anchored = set()    # (old, new) seen at a definition position
    for by_module in (True, False):
        oi, ni = index(old_units, by_module), index(new_units, by_module)
        for key, olds in oi.items():
            news = ni.get(key)
            if not news or len(news) != len(olds):
                continue
            if not by_module and len(olds) != 1:
                continue            # across modules only skeletons that are unique in the package (a moved function)
            for (_, a, adefs), (m, b, _) in zip(olds, news):
                if len(a) != len(b):
                    continue
                for i, (x, y) in enumerate(zip(a, b)):
                    if x != y:
                        pairs.setdefault(m, {}).setdefault(x, set()).add(y)
                        if i in adefs:
                            anchored.add((x, y))
    # consistency over the whole package
    fwd, bwd = {}, {}
    for m, d in pairs.items():
        for o, ns in d.items():
            fwd.setdefault(o, set()).update(ns)
            for n in ns:
                bwd.setdefault(n, set()).add(o)
    out = {}
    for o, ns in fwd.items():
        if len(ns) != 1:
            continue
        n = next(iter(ns))
        if bwd.get(n) != {o}:
            continue
        if o not in new_ids and n not in old_ids:
            for m in new_by_mod:
                if n in new_by_mod[m]:
                    out.setdefault(m, {})[n] = o
        elif (o, n) in anchored:
            for m in new_by_mod:
                if n in new_by_mod[m] and n not in old_by_mod.get(m, ()) and o not in new_by_mod[m]:
                    out.setdefault(m, {})[n] = o
    return out


class _Rename(ast.NodeTransformer):
    def __init__(self, m):
        self.m = m

    def generic_visit(self, node):
        m = self.m
        if isinstance(node, ast.Name) and node.id in m:
            node.id = m[node.id]
        elif isinstance(node, ast.Attribute) and node.attr in m:
            node.attr = m[node.attr]
        elif isinstance(node, (ast.FunctionDef, ast.ClassDef)) and node.name in m:
            node.name = m[node.name]
        elif isinstance(node, ast.arg) and node.arg in m:
            node.arg = m[node.arg]
        elif isinstance(node, ast.keyword) and node.arg in m:
            node.arg = m[node.arg]
        elif isinstance(node, ast.alias):
            if node.name in m:
                node.name = m[node.name]
            if node.asname in m:
                node.asname = m[node.asname]
        elif isinstance(node, ast.ExceptHandler) and node.name in m:
            node.name = m[node.name]
        elif isinstance(node, (ast.Global, ast.Nonlocal)):
            node.names = [m.get(x, x) for x in node.names]
        elif isinstance(node, ast.Assign) and any(isinstance(t, ast.Name) and t.id == '__slots__' for t in node.targets):
            for c in ast.walk(node.value):
                if isinstance(c, ast.Constant) and isinstance(c.value, str) and c.value in m:
                    c.value = m[c.value]
        return super().generic_visit(node)


def apply(trees, maps):
    for mod, mapping in maps.items():
        if mapping and mod in trees:
            _Rename(mapping).visit(trees[mod])


def unchanged_defs(trees, path=SPEC):
    """names of the functions / methods whose definition is, identifier for identifier, the reviewed one"""
    if not os.path.exists(path):
        return set()
    spec = json.load(open(path))
    old = {}
    for m, k, h, ids, defs in spec['units']:
        if k in ('func', 'method') and ids:
            old.setdefault((m, ids[0]), []).append((h, ids))
    out = set()
    changed = set()
    for m in trees:
        for mm, k, h, ids, defs in units_of(trees[m], m):
            if k in ('func', 'method') and ids:
                if (h, ids) in [(a, b) for a, b in old.get((mm, ids[0]), [])]:
                    out.add(ids[0])
                else:
                    changed.add(ids[0])
    return out - changed


_REVIEWED_IDS = None


def reviewed_identifiers(path=SPEC):
    """every identifier (names, attribute names, parameters) that occurs anywhere in the reviewed tree"""
    global _REVIEWED_IDS
    if _REVIEWED_IDS is None:
        ids = set()
        if os.path.exists(path):
            for u in json.load(open(path))['units']:
                ids.update(u[3])
        _REVIEWED_IDS = ids
    return _REVIEWED_IDS


def substitutions(trees, path=SPEC):
    """[(module, unit name, old identifier, new identifier)]: units (functions / methods) of the analysed tree that have the
    skeleton of the reviewed unit of the same name in the same module, where one identifier that exists in both trees was
    replaced by another identifier that exists in both trees (so it is not a rename: another entity is used at that place)"""
    if not os.path.exists(path):
        return []
    spec = json.load(open(path))
    old_units = [tuple(u) for u in spec['units']]
    old_ids = set()
    for u in old_units:
        old_ids.update(u[3])
    new_units = []
    for m in sorted(trees):
        new_units += units_of(trees[m], m)
    new_ids = set()
    for u in new_units:
        new_ids.update(u[3])
    old_idx = {}
    for m, k, h, ids, defs in old_units:
        if k in ('func', 'method') and ids:
            old_idx.setdefault((m, k, h, ids[0]), []).append(ids)
    out = []
    for m, k, h, ids, defs in new_units:
        if k not in ('func', 'method') or not ids:
            continue
        cands = old_idx.get((m, k, h, ids[0]))
        if not cands or len(cands) != 1 or len(cands[0]) != len(ids):
            continue
        seen = set()
        for x, y in zip(cands[0], ids):
            if x != y and x in new_ids and y in old_ids and (x, y) not in seen:
                seen.add((x, y))
                out.append((m, ids[0], x, y))
    return out
