"""Findings, rule results, known-findings matching, evidence and replay files."""
import hashlib
import json
import os
import re

VERIF = os.path.dirname(os.path.dirname(os.path.abspath(__file__)))
KNOWN_FILE = os.path.join(VERIF, 'known_findings.json')


def norm(s):
    return re.sub(r'\s+', ' ', s).strip()


class Finding:
    def __init__(self, rule, module, function, construct, message, line=0, details=None, failing_input=None):
        self.rule = rule
        self.module = module            # path relative to repo root
        self.function = function        # package-relative dotted name
        self.construct = norm(construct)
        self.message = message
        self.line = line
        self.details = details or []
        self.failing_input = failing_input

    @property
    def key(self):
        return (self.rule, self.module, self.function, self.construct)

    def key_id(self):
        h = hashlib.sha1('|'.join(self.key).encode()).hexdigest()[:8]
        fn = re.sub(r'[^A-Za-z0-9_.]', '_', self.function)[-60:]
        return re.sub(r'[^A-Za-z0-9_.-]', '_', '%s-%s-%s' % (self.rule, fn, h))

    def to_json(self):
        return {'rule': self.rule, 'module': self.module, 'function': self.function,
                'construct': self.construct, 'message': self.message, 'line': self.line,
                'details': self.details}

    def render(self):
        out = ['%s:%d %s  %s  %s' % (self.module, self.line, self.function, self.rule, self.message),
               '    construct: %s' % self.construct]
        for d in self.details:
            out.append('    ' + d)
        return '\n'.join(out)


class RuleResult:
    """Outcome of one rule: every instance is an obligation."""

    def __init__(self, rule, clause='N', text=''):
        self.rule = rule
        self.clause = clause      # 'D' decided | 'N' necessary condition
        self.text = text          # one-line statement of the rule
        self.instances = 0
        self.findings = []
        self.samples = []
        self.assumptions = []
        self.notes = []
        self.floor = 0
        self.stats = {}
        self.undecideds = []      # (what, why): shape not recognised; neither a pass nor an alarm

    def ok(self, sample=None, n=1):
        self.instances += n
        if sample is not None and len(self.samples) < 6:
            self.samples.append(sample)

    def bad(self, finding):
        self.instances += 1
        self.findings.append(finding)

    def undecided(self, what, why):
        """The code no longer has a shape this obligation can be read off, and nothing property-breaking was positively
        identified: the obligation is reported as not decided (no alarm, no pass)."""
        self.instances += 1
        if (what, why) not in self.undecideds:
            self.undecideds.append((what, why))

    def shape(self, ok, sample, f, node, construct, message, bad=None, rule=None, **kw):
        """pin helper: ok -> discharged; `bad` (a positively identified property-breaking construct) -> finding; else undecided"""
        from .core import Func
        if ok:
            self.ok(sample)
            return True
        if bad:
            self.bad(Finding(rule or self.rule, f.module.relpath, f.short if isinstance(f, Func) else str(f), construct, message, getattr(node, 'lineno', 0), **kw))
            return False
        self.undecided(construct, message)
        return False

    def require_floor(self, floor):
        from .core import AnalysisError
        self.floor = floor
        if self.instances < floor and not self.undecideds and not self.findings:
            raise AnalysisError('%s: only %d instances matched, hand-confirmed floor is %d '
                                '(the rule would pass vacuously)' % (self.rule, self.instances, floor))
        return self


def load_known():
    if not os.path.exists(KNOWN_FILE):
        return []
    with open(KNOWN_FILE) as f:
        return json.load(f).get('findings', [])


def known_key(rec):
    return (rec['rule'], rec['module'], rec['function'], norm(rec['construct']))
