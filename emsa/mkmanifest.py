"""Regenerates /verif/MANIFEST.json from emsa.props (single source of truth)."""
import json
import os
import sys

sys.path.insert(0, os.path.dirname(os.path.dirname(os.path.abspath(__file__))))
from emsa import props  # noqa: E402

VERIF = os.path.dirname(os.path.dirname(os.path.abspath(__file__)))
PY = '/venv/bin/python'


def main():
    checks = []
    for pid in sorted(props.PROPERTIES):
        spec = props.PROPERTIES[pid]
        checks.append({
            'property_id': pid,
            'quick_cmd': '%s -m emsa.run --property %s --tier quick' % (PY, pid),
            'thorough_cmd': '%s -m emsa.run --property %s --tier thorough' % (PY, pid),
            'evidence_file': 'evidence/%s.json' % pid,
            'replay_cmd_template': '%s -m emsa.run --property %s --replay {path}' % (PY, pid),
            'engine': 'emsa',
            'level_claimed': {
                'category': 'other',
                'text': 'Static analysis of the current source tree (no execution of emmet). ' + spec['explanation']
                        + ' Rules: ' + ', '.join(r if isinstance(r, str) else r[0] for r in spec['rules']) + '.',
                'design_ref': 'DESIGN.md section 3 (%s), section 2 (rule families)' % pid,
            },
            'level_note': 'Not decided by this check: ' + ('; '.join(spec['not_decided']) or 'nothing further') +
                          '. Trusted base: CPython ast, the resolver of emsa.core (annotation/constructor based nominal types), '
                          'the language-subset census (rule CENSUS).',
            'technique': 'static analysis: ' + spec['technique'],
        })
    claimed = set(props.PROPERTIES)
    na = []
    for line in open(os.path.join(VERIF, 'properties.jsonl')):
        pid = json.loads(line)['id']
        if pid not in claimed:
            na.append({'property_id': pid, 'reason': props.NOT_APPLICABLE.get(pid, 'no sound static rule built for this property')})
    manifest = {
        'version': 1,
        'setup_cmd': '%s -m compileall -q emsa' % PY,
        'hooks': {
            'guard': 'EMMETIO_PY_EMMET_VERIF',
            'enable': 'no hooks: the checks parse /repo and execute nothing from it, so no instrumentation exists',
            'baseline_off_cmd': 'cd /repo && /venv/bin/python -m pytest -q -p no:cacheprovider --timeout=900',
            'source_commits': [],
            'add_only': True,
        },
        'engines': [{
            'name': 'emsa', 'path': 'emsa/', 'serves_properties': sorted(claimed),
            'kind_free_text': 'repository-specific static analyser on CPython ast: resolver + call graph, table agreement, '
                              'decision-table extraction, sentinel/cursor dataflow, effect summaries',
        }],
        'checks': checks,
        'not_applicable': na,
        'notes': 'All checks are static analysis (family fixed by the task). exit 0 held / 1 violation / 2 analysis error (cannot decide). '
                 'Known findings: known_findings.json.',
    }
    with open(os.path.join(VERIF, 'MANIFEST.json'), 'w') as f:
        json.dump(manifest, f, indent=1)
    print('MANIFEST.json: %d checks, %d not applicable' % (len(checks), len(na)))


if __name__ == '__main__':
    main()
